#!/bin/sh
# Offline setup: third-party pieces into the git-ignored .deps (also done on demand by every check).
HERE="$(cd "$(dirname "$0")" && pwd)"
cd "$HERE" || exit 2
export PYTHONDONTWRITEBYTECODE=1 PIP_NO_INDEX=1
exec /venv/bin/python -c "import sys; sys.path.insert(0,'$HERE'); from vt import runner; runner.ensure_deps(); print('deps ok')"
