#!/usr/bin/env python3
"""Regenerates MANIFEST.json from the property modules present under vt/props."""
import json, os, re
HERE = os.path.dirname(os.path.abspath(__file__))
props = [json.loads(l) for l in open(os.path.join(HERE, 'properties.jsonl'))]
META = json.load(open(os.path.join(HERE, 'manifest_meta.json')))
checks, na = [], []
for p in props:
    pid = p['id']
    m = META['checks'].get(pid)
    if m and os.path.exists(os.path.join(HERE, 'vt', 'props', pid.lower() + '.py')):
        checks.append({
            'property_id': pid,
            'quick_cmd': './check %s --tier quick' % pid,
            'thorough_cmd': './check %s --tier thorough' % pid,
            'evidence_file': 'evidence/%s.json' % pid,
            'replay_cmd_template': './check %s --replay {path}' % pid,
            'engine': 'vt',
            'level_claimed': {'category': m.get('category', 'exploration'), 'text': m['text'], 'design_ref': 'DESIGN.md section 3, ' + pid},
            'level_note': m['note'],
            'technique': m['technique'],
        })
    else:
        na.append({'property_id': pid, 'reason': META['not_applicable'].get(pid, 'check not built yet in this session (runtime monitor planned, see DESIGN.md section 3)')})
man = {
    'version': 1,
    'setup_cmd': './setup.sh',
    'hooks': META['hooks'],
    'engines': [{'name': 'vt', 'path': 'vt/', 'serves_properties': [c['property_id'] for c in checks],
                 'kind_free_text': 'runtime monitors (post-conditions, boundary invariants, trace checkers) attached to the real cirbo functions, driven by seeded hostile workloads sharded over fresh sub-processes'}],
    'checks': checks,
    'notes': META['notes'],
    'not_applicable': na,
}
json.dump(man, open(os.path.join(HERE, 'MANIFEST.json'), 'w'), indent=1)
print('checks:', [c['property_id'] for c in checks], 'n/a:', [x['property_id'] for x in na])
