#!/usr/bin/env python3
"""Mechanical single-token mutants of the anchored source files (a complement to the changes seeded by sub-agents).

  tools_mutants.py gen   <per_file> <seed>     draw mutants, keep those that compile and pass the repository's test suite
  tools_mutants.py run   [ids...]              run the quick checks of the properties anchored on the mutated file (seed 0)
  tools_mutants.py show                        summary table

Mutants live in /verif/mutants/<id>/patch.diff (+ meta.json); scratch worktrees under $TMPDIR are removed afterwards.
A surviving mutant that no check reports is either equivalent (changes nothing a property speaks about) or a gap: those
are read by hand, see DESIGN.md section 7.3."""
import io
import json
import os
import random
import shutil
import subprocess
import sys
import tokenize
from concurrent.futures import ThreadPoolExecutor

HERE = os.path.dirname(os.path.abspath(__file__))
OUT = os.path.join(HERE, 'mutants')
PY = '/venv/bin/python'
# the eight collection errors of the baseline (python-sat / mockturtle absent) count towards --maxfail: the ninth
# problem is the first real failure, and the run ends there
SUITE = [PY, '-m', 'pytest', '--maxfail=9', '-q', '-p', 'no:cacheprovider', '--timeout=900', '--continue-on-collection-errors']
SWAP_OP = {'<': '<=', '<=': '<', '>': '>=', '>=': '>', '==': '!=', '!=': '==', '+': '-', '-': '+'}
SWAP_NAME = {'and': 'or', 'or': 'and', 'True': 'False', 'False': 'True', 'min': 'max', 'max': 'min', 'break': 'continue',
             'continue': 'break', 'any': 'all', 'all': 'any'}
ORDER = ['C20', 'C15', 'C19', 'C02', 'C01', 'C13', 'C14', 'C11', 'C12', 'C10', 'C03', 'C18', 'C07', 'C08', 'C09', 'C16', 'C17',
         'C05', 'C06', 'C04']


def sh(cmd, cwd=None, env=None, timeout=3600):
    r = subprocess.run(cmd, cwd=cwd, env=env, capture_output=True, text=True, timeout=timeout)
    return r.returncode, (r.stdout or '') + (r.stderr or '')


def anchors():
    files = {}
    for line in open(os.path.join(HERE, 'properties.jsonl')):
        d = json.loads(line)
        for f in d['anchors']['files']:
            if f.endswith('.py'):
                files.setdefault(f, []).append(d['id'])
    return files


def candidates(src):
    """(row, col, old, new) single-token replacements outside doc strings, comments, imports, signatures and log lines."""
    out = []
    lines = src.split('\n')
    toks = list(tokenize.generate_tokens(io.StringIO(src).readline))
    depth_def = False
    for i, t in enumerate(toks):
        line = lines[t.start[0] - 1] if t.start[0] - 1 < len(lines) else ''
        st = line.strip()
        if st.startswith(('import ', 'from ', 'def ', 'class ', '@', 'logger.', 'raise ', '__all__', '"', "'", '#')) or 'logger.' in st:
            continue
        if '->' in line or ': tp.' in line or 'tp.' in line:
            continue
        if t.type == tokenize.OP and t.string in SWAP_OP:
            if t.string in '+-' and i and toks[i - 1].type == tokenize.OP and toks[i - 1].string in '(,=[:':
                continue    # unary sign
            out.append((t.start[0], t.start[1], t.string, SWAP_OP[t.string]))
        elif t.type == tokenize.NAME and t.string in SWAP_NAME:
            if t.string in ('min', 'max', 'any', 'all') and not (i + 1 < len(toks) and toks[i + 1].string == '('):
                continue
            out.append((t.start[0], t.start[1], t.string, SWAP_NAME[t.string]))
        elif t.type == tokenize.NUMBER and t.string.isdigit() and int(t.string) < 100:
            v = int(t.string)
            out.append((t.start[0], t.start[1], t.string, str(v + 1)))
            if v > 0:
                out.append((t.start[0], t.start[1], t.string, str(v - 1)))
    # statement deletion: a one-line call statement (an update of a secondary structure, a registration, an append)
    # becomes `pass`
    import re
    for k, line in enumerate(lines):
        st = line.strip()
        if re.match(r'^[A-Za-z_][\w\.\[\]\'\"]*\(.*\)$', st) and not st.startswith(('logger.', 'print(', 'super(', 'raise', 'return', 'assert', 'check_')) \
                and st.count('(') == st.count(')'):
            out.append((k + 1, len(line) - len(line.lstrip()), st, 'pass'))
    return out


def mutate(src, c):
    row, col, old, new = c
    lines = src.split('\n')
    ln = lines[row - 1]
    assert ln[col:col + len(old)] == old
    lines[row - 1] = ln[:col] + new + ln[col + len(old):]
    return '\n'.join(lines)


def worktree():
    import tempfile
    d = tempfile.mkdtemp(prefix='vt_mut_', dir=os.environ.get('TMPDIR', '/tmp'))
    os.rmdir(d)
    rc, out = sh(['git', '-C', '/repo', 'worktree', 'add', '-q', '--detach', d, 'HEAD'])
    assert rc == 0, out
    return d


def drop(d):
    sh(['git', '-C', '/repo', 'worktree', 'remove', '--force', d])
    shutil.rmtree(d, ignore_errors=True)


def gen(per_file, seed, workers=8):
    rng = random.Random(seed)
    os.makedirs(OUT, exist_ok=True)
    jobs = []
    for f, ids in anchors().items():
        src = open(os.path.join('/repo', f)).read()
        cs = candidates(src)
        rng.shuffle(cs)
        for c in cs[:per_file]:
            try:
                compile(mutate(src, c), f, 'exec')
            except SyntaxError:
                continue
            jobs.append((f, ids, c))
    print('candidates:', len(jobs), flush=True)
    trees = [worktree() for _ in range(workers)]
    free = list(trees)
    import threading
    lock = threading.Lock()
    kept = []

    def one(job):
        f, ids, c = job
        with lock:
            t = free.pop()
        try:
            p = os.path.join(t, f)
            src = open(p).read()
            open(p, 'w').write(mutate(src, c))
            rc, out = sh(SUITE, cwd=t, env=dict(os.environ, PYTHONDONTWRITEBYTECODE='1'), timeout=1800)
            tail = out.strip().split('\n')[-1]
            ok = '2129 passed' in tail and '8 errors' in tail and 'failed' not in tail
            diff = sh(['git', '-C', t, 'diff'])[1]
            sh(['git', '-C', t, 'checkout', '--', '.'])
            if ok:
                with lock:
                    mid = 'M%s_%04d' % (seed, len(kept))
                    kept.append(mid)
                d = os.path.join(OUT, mid)
                os.makedirs(d, exist_ok=True)
                open(os.path.join(d, 'patch.diff'), 'w').write(diff)
                json.dump({'file': f, 'properties': ids, 'line': c[0], 'old': c[2], 'new': c[3],
                           'source_line': src.split('\n')[c[0] - 1].strip()}, open(os.path.join(d, 'meta.json'), 'w'), indent=1)
            print(('SURVIVES ' if ok else 'killed   ') + f, c, flush=True)
        finally:
            with lock:
                free.append(t)

    try:
        with ThreadPoolExecutor(workers) as ex:
            list(ex.map(one, jobs))
    finally:
        for t in trees:
            drop(t)
    print('survivors of the test suite:', len(kept))


def run(ids=None):
    names = sorted(n for n in os.listdir(OUT) if os.path.exists(os.path.join(OUT, n, 'patch.diff')))
    for n in names:
        if ids and n not in ids:
            continue
        d = os.path.join(OUT, n)
        meta = json.load(open(os.path.join(d, 'meta.json')))
        if 'verdict' in meta and not ids:
            continue
        t = worktree()
        try:
            rc, out = sh(['git', '-C', t, 'apply', os.path.join(d, 'patch.diff')])
            if rc != 0:
                meta['verdict'] = 'patch_does_not_apply'
                continue
            res = {}
            verdict = 'MISSED'
            for pid in sorted(meta['properties'], key=ORDER.index):
                env = dict(os.environ, VT_REPO=t, VERIF_SEED='0')
                rc, o = sh([os.path.join(HERE, 'check'), pid, '--tier', 'quick', '--no-evidence'], cwd=HERE, env=env, timeout=3600)
                sig = [l.strip()[:300] for l in o.split('\n') if 'violation:' in l or l.startswith('INCONCLUSIVE')][:2]
                res[pid] = {'rc': rc, 'sig': sig}
                if rc == 1:
                    verdict = 'DETECTED by ' + pid
                    break
                if rc == 2 and verdict == 'MISSED':
                    verdict = 'INCONCLUSIVE in ' + pid
            meta['checks'] = res
            meta['verdict'] = verdict
        finally:
            drop(t)
            json.dump(meta, open(os.path.join(d, 'meta.json'), 'w'), indent=1)
        print(n, meta['file'], 'L%d' % meta['line'], '%s -> %s' % (meta['old'], meta['new']), '|', meta['verdict'], flush=True)


def show():
    rows = []
    for n in sorted(os.listdir(OUT)):
        p = os.path.join(OUT, n, 'meta.json')
        if os.path.exists(p):
            m = json.load(open(p))
            rows.append((n, m['file'], m['line'], m['old'], m['new'], m.get('verdict', '?'), m.get('triage', ''), m['source_line'][:90]))
    for r in rows:
        print('| %s | %s:%d | `%s` -> `%s` | %s | %s | `%s` |' % r)
    import collections
    print(collections.Counter(r[5].split(' ')[0] for r in rows))


if __name__ == '__main__':
    if sys.argv[1] == 'gen':
        gen(int(sys.argv[2]), sys.argv[3])
    elif sys.argv[1] == 'run':
        run(sys.argv[2:] or None)
    else:
        show()
