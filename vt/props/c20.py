"""C20 - traversals visit exactly the reachable gates in a valid order.

Trace monitor: the real Circuit.dfs / bfs / top_sort are wrapped so that every
hook invocation and every yielded gate is appended to an event list; when the
generator is exhausted an offline checker decides reachability, exactly-once,
enter-before-exit, post-order, the unvisited complement and its order.  The
cycle check is monitored against an own DFS on deliberately cyclic netlists."""
from __future__ import annotations

import functools
import itertools
import random

from vt import monitor, netgen, refsem, wf

ID = 'C20'
LEVEL = 'exploration'
RULE = ('random DAG netlists (sharing, repeated operands, disconnected parts, dead gates) x {top_sort, dfs, bfs} x both '
        'directions x start sets (default, empty, random subsets, duplicated starts) x hook combinations x '
        'topsort_unvisited; cyclic variants (one operand re-pointed to a transitive user, built through the bench parser) '
        'for the cycle check.  distinct = (structural hash, mode, direction, start set, options); non-trivial = reachable '
        'set neither empty nor everything, or some gate has >=2 users.')
ANCHOR_FILES = ['cirbo/core/circuit/circuit.py', 'cirbo/core/circuit/validation.py']
ASSUMPTIONS = ['own reachability closure / DFS over the operand relation is the definition of reachable / cyclic']
REQUIRED = {'mon:top_sort.checked': 200, 'mon:dfs.checked': 500, 'mon:bfs.checked': 500,
            'mon:check_circuit_has_no_cycles.checked': 100, 'cycle:raised_expected': 20, 'cycle:clean_expected': 20,
            'cycle:unreachable_cycle': 3, 'peeking_hooks': 200, 'cycle:explicit_start_lists': 200, 'composed_circuits': 100, 'lockstep_traversals': 200, 'nested_traversals': 100}

CUR = {'ctx': None, 'case': None}


def shards(tier, seed):
    per = 110 if tier == 'quick' else 15000
    budget = 40 if tier == 'quick' else 500
    _out = [{'kind': 'random', 'count': per, 'budget_s': budget, 'max_g': 14 if tier == 'quick' else 40} for _ in range(16)]
    _out.append({'kind': 'deep', 'count': 2 if tier == 'quick' else 20, 'budget_s': budget,
                 'depths': netgen.DEEP_QUICK if tier == 'quick' else netgen.DEEP_THOROUGH})
    if tier == 'thorough':
        _out.append({'kind': 'suite', 'select': ['tests'], 'budget_s': 900})
    return _out


# ------------------------------------------------------------------ trace checker

def _closure(ops_or_users, start):
    seen = set()
    st = list(start)
    while st:
        g = st.pop()
        if g in seen:
            continue
        seen.add(g)
        st.extend(ops_or_users.get(g, ()))
    return seen


def check_trace(net, mode, inverse, start, topsort_unvisited, events, hooks_used):
    """Return list of (discriminator, message)."""
    errs = []
    ops = {l: tuple(o) for l, (t, o) in net.gates.items()}
    users = {l: [] for l in ops}
    for l, o in ops.items():
        for x in o:
            users[x].append(l)
    nxt = users if inverse else ops
    if start is None:
        start = list(net.inputs) if inverse else list(net.outputs)
    reach = _closure(nxt, start) if ops else set()
    yields = [e[1] for e in events if e[0] == 'yield']
    if sorted(yields) != sorted(reach):
        extra = sorted(set(yields) - reach)
        missing = sorted(reach - set(yields))
        dup = sorted({y for y in yields if yields.count(y) > 1})
        errs.append(('yield_set', 'yielded %d gates; reachable %d; extra %r missing %r repeated %r' % (
            len(yields), len(reach), extra[:5], missing[:5], dup[:5])))
    pos = {}
    for i, e in enumerate(events):
        pos.setdefault((e[0], e[1] if len(e) > 1 else None), []).append(i)
    if 'enter' in hooks_used:
        enters = [e[1] for e in events if e[0] == 'enter']
        if sorted(enters) != sorted(reach):
            errs.append(('enter_set', 'enter hook fired for %r, reachable %r' % (sorted(enters)[:8], sorted(reach)[:8])))
        for g in reach:
            pe, py = pos.get(('enter', g)), pos.get(('yield', g))
            if pe and py and not pe[0] < py[0]:
                errs.append(('enter_after_yield', 'gate %r yielded before its enter hook' % g))
                break
    if mode == 'dfs' and 'exit' in hooks_used:
        exits = [e[1] for e in events if e[0] == 'exit']
        if sorted(exits) != sorted(reach):
            errs.append(('exit_set', 'exit hook fired for %r, reachable %r' % (sorted(exits)[:8], sorted(reach)[:8])))
        else:
            epos = {g: pos[('exit', g)][0] for g in reach}
            if 'enter' in hooks_used:
                for g in reach:
                    pe = pos.get(('enter', g))
                    if pe and not pe[0] < epos[g]:
                        errs.append(('exit_before_enter', 'gate %r: exit hook before enter hook' % g))
                        break
            for g in reach:
                for s in nxt[g]:
                    if s != g and not epos[s] < epos[g]:
                        errs.append(('not_post_order', 'gate %r exited before its successor %r' % (g, s)))
                        break
                else:
                    continue
                break
    if 'unvisited' in hooks_used:
        unv = [e[1] for e in events if e[0] == 'unvisited']
        want = set(ops) - reach
        if sorted(unv) != sorted(want):
            errs.append(('unvisited_set', 'unvisited hook got %r, unreached gates are %r' % (sorted(unv)[:8], sorted(want)[:8])))
        elif topsort_unvisited:
            p = {g: i for i, g in enumerate(unv)}
            for g in unv:
                for o in ops[g]:
                    if o in p and not p[o] < p[g]:
                        errs.append(('unvisited_order', 'unvisited hook saw %r before its operand %r' % (g, o)))
                        break
                else:
                    continue
                break
        last_yield = max([i for i, e in enumerate(events) if e[0] == 'yield'], default=-1)
        first_unv = min([i for i, e in enumerate(events) if e[0] == 'unvisited'], default=len(events))
        if first_unv < last_yield:
            errs.append(('unvisited_early', 'unvisited hook fired before the traversal finished'))
    # (on_traversal_end_hook is recorded but not judged: the property does not speak about it - an empty circuit, for
    # which the library returns before calling it, showed that judging it demanded more than the property states)
    return errs


# ------------------------------------------------------------------ monitors (generator wrappers)

def _attach_gen(cls, name, make_proxy):
    raw = cls.__dict__[name]

    @functools.wraps(raw)
    def wrapper(self, *args, **kwargs):
        return make_proxy(raw, self, args, kwargs)

    setattr(cls, name, wrapper)
    monitor._installed.append((cls, name, raw))


def _is_wf_dag(self):
    try:
        net = refsem.net_of(self)
        for l, (t, ops) in net.gates.items():
            for o in ops:
                if o not in net.gates:
                    return None
        if wf.has_cycle({l: o for l, (t, o) in net.gates.items()}):
            return None
        # users index must match (traversals with inverse=True rely on it); stale index => not in domain
        want = {}
        for l, (t, o) in net.gates.items():
            for x in o:
                want.setdefault(x, []).append(l)
        for l in net.gates:
            if sorted(self.get_gate_users(l)) != sorted(want.get(l, [])):
                if CUR.get('public_only'):
                    # the workload made this object through public calls only: a stale users index is the library's own
                    # doing and does not take the circuit out of "all circuits"
                    CUR['ctx'].count('stale_users_index_on_public_object')
                    return net
                return None
        return net
    except Exception:
        return None


def _traverse_proxy(mode):
    def make(raw, self, args, kwargs):
        ctx = CUR['ctx']
        ctx.mon(mode, 'calls')
        net = _is_wf_dag(self)
        if net is None:
            ctx.mon(mode, 'skipped_not_wf_dag')
            return raw(self, *args, **kwargs)
        start = args[0] if args else kwargs.get('start_gates')
        start = None if start is None else list(start)
        inverse = kwargs.get('inverse', False)
        tsu = kwargs.get('topsort_unvisited', False)
        events = []
        hooks_used = set()
        kw = dict(kwargs)

        def rec(kind, key):
            orig = kwargs.get(key)
            hooks_used.add(kind)
            if kind == 'end':
                def h(states):
                    events.append(('end',))
                    if orig is not None:
                        orig(states)
            else:
                def h(g, states):
                    events.append((kind, g.label))
                    if orig is not None:
                        orig(g, states)
            kw[key] = h

        rec('enter', 'on_enter_hook')
        if mode == 'dfs':
            rec('exit', 'on_exit_hook')
        rec('unvisited', 'unvisited_hook')
        rec('end', 'on_traversal_end_hook')
        case = CUR['case']

        def proxy():
            it = raw(self, *args, **kw)
            for g in it:
                events.append(('yield', g.label))
                yield g
            # exhausted: decide the trace
            ctx.mon(mode)
            for disc, msg in check_trace(net, mode, inverse, start, tsu, events, hooks_used):
                ctx.violation('Circuit.%s' % mode, 'wrong_result', disc,
                              '%s(start=%r, inverse=%r, topsort_unvisited=%r): %s' % (mode, start, inverse, tsu, msg),
                              dict(case or {}, call={'mode': mode, 'start': start, 'inverse': inverse, 'tsu': tsu}))

        return proxy()

    return make


def _topsort_proxy(raw, self, args, kwargs):
    ctx = CUR['ctx']
    ctx.mon('top_sort', 'calls')
    net = _is_wf_dag(self)
    if net is None:
        ctx.mon('top_sort', 'skipped_not_wf_dag')
        return raw(self, *args, **kwargs)
    inverse = kwargs.get('inverse', False)
    case = CUR['case']

    def proxy():
        seq = []
        try:
            for g in raw(self, *args, **kwargs):
                seq.append(g.label)
                yield g
        except Exception as e:
            from cirbo.core.circuit.exceptions import CircuitIsCyclicalError
            if isinstance(e, CircuitIsCyclicalError):
                ctx.violation('Circuit.top_sort', 'exception', 'CircuitIsCyclicalError_on_dag',
                              'top_sort(inverse=%r) raised on an acyclic circuit' % inverse, case)
            raise
        ctx.mon('top_sort')
        if sorted(seq) != sorted(net.gates):
            ctx.violation('Circuit.top_sort', 'wrong_result', 'not_a_permutation',
                          'top_sort(inverse=%r) yielded %d gates (%d distinct) of %d' % (inverse, len(seq), len(set(seq)), len(net.gates)), case)
            return
        p = {l: i for i, l in enumerate(seq)}
        for l, (t, ops) in net.gates.items():
            for o in ops:
                if inverse and not p[o] < p[l]:
                    ctx.violation('Circuit.top_sort', 'wrong_result', 'order', 'inverse=True: %r before its operand %r' % (l, o), case)
                    return
                if not inverse and not p[o] > p[l]:
                    ctx.violation('Circuit.top_sort', 'wrong_result', 'order', 'inverse=False: operand %r before user %r' % (o, l), case)
                    return

    return proxy()


def _cycle_reachable_from_outputs(c, start=None):
    ops = {l: tuple(g.operands) for l, g in c.gates.items()}
    reach = _closure(ops, list(c.outputs) if start is None else list(start))
    sub = {l: tuple(o for o in ops[l] if o in reach) for l in reach}
    return wf.has_cycle(sub)


def _pre_cycle(args, kwargs):
    c = args[0] if args else kwargs['circuit']
    try:
        for g in c.gates.values():
            for o in g.operands:
                if o not in c.gates:
                    return None
        start = args[1] if len(args) > 1 else kwargs.get('start_gates')
        return _cycle_reachable_from_outputs(c, start)
    except Exception:
        return None


def _post_cycle(state, args, kwargs, result):
    ctx = CUR['ctx']
    if state is None:
        ctx.mon('check_circuit_has_no_cycles', 'skipped_malformed')
        return
    ctx.mon('check_circuit_has_no_cycles')
    if state:
        ctx.violation('check_circuit_has_no_cycles', 'wrong_result', 'missed_cycle',
                      'returned normally although a cycle is reachable from the start set (default: the outputs)', CUR['case'])
    else:
        ctx.count('cycle:clean_expected')


def _raise_cycle(state, args, kwargs, exc):
    from cirbo.core.circuit.exceptions import CircuitValidationError
    ctx = CUR['ctx']
    if state is None:
        return
    ctx.mon('check_circuit_has_no_cycles')
    if isinstance(exc, CircuitValidationError):
        if not state:
            ctx.violation('check_circuit_has_no_cycles', 'exception', 'false_cycle',
                          'raised CircuitValidationError although no cycle is reachable from the start set (default: the outputs)', CUR['case'])
        else:
            ctx.count('cycle:raised_expected')
    else:
        ctx.violation('check_circuit_has_no_cycles', 'exception', type(exc).__name__,
                      'raised %r (cycle reachable: %r)' % (exc, state), CUR['case'])


def install(ctx):
    from cirbo.core.circuit import Circuit
    from cirbo.core.circuit import validation
    import cirbo.core.circuit.circuit as cmod
    CUR['ctx'] = ctx
    _attach_gen(Circuit, 'dfs', _traverse_proxy('dfs'))
    _attach_gen(Circuit, 'bfs', _traverse_proxy('bfs'))
    _attach_gen(Circuit, 'top_sort', _topsort_proxy)
    w = monitor.attach(validation, 'check_circuit_has_no_cycles', pre=_pre_cycle, post=_post_cycle, on_raise=_raise_cycle)
    # references bound before decoration (from-imports) must see the monitor too
    for m in (cmod,):
        if getattr(m, 'check_circuit_has_no_cycles', None) is not None:
            orig = m.check_circuit_has_no_cycles
            m.check_circuit_has_no_cycles = w
            monitor._installed.append((m, 'check_circuit_has_no_cycles', orig))


# ------------------------------------------------------------------ workload

def _consume(it):
    for _ in it:
        pass


def check_case(case, ctx):
    from cirbo.core.circuit import Circuit
    from cirbo.core.circuit import validation
    CUR['case'] = case
    CUR['public_only'] = True
    net = netgen.from_description(case['net'])
    rng = random.Random(case.get('rseed', 0))
    try:
        c = netgen.build(net, rng=rng, shuffle_storage=case.get('shuffle', False))
    except Exception as e:
        ctx.count('build_failed:' + type(e).__name__)
        return
    if case.get('edited'):
        with monitor.suspended():
            case = dict(case, edits_applied=netgen.random_edits(c, rng))
            CUR['case'] = case
            net = refsem.net_of(c)
        ctx.count('edited_circuits')
    if case.get('compose') is not None:
        # circuits the library itself assembled (connect / extend / add in both directions, named blocks, prefixes)
        from vt.props import c10
        crng = random.Random(case['compose'])
        with monitor.suspended():
            for step in range(crng.randint(1, 2)):
                try:
                    d = c10._gen_step(crng, refsem.net_of(c), step)
                    c10._apply(c, d)
                except Exception as e:
                    ctx.count('compose_step_refused:' + type(e).__name__)
            net = refsem.net_of(c)
        ctx.count('composed_circuits')
    sh = refsem.structural_hash(net)
    labels = list(net.gates)
    users = {}
    for l, (t, ops) in net.gates.items():
        for o in ops:
            users.setdefault(o, []).append(l)
    shared = any(len(u) >= 2 for u in users.values())
    ops_map = {l: o for l, (t, o) in net.gates.items()}
    users_map = {l: users.get(l, []) for l in net.gates}
    try:
        _consume(c.top_sort())
        _consume(c.top_sort(inverse=True))
        ctx.case('%s:top_sort' % sh, len(labels) > len(net.inputs) and shared, cls='mode:top_sort')
        for mode in ('dfs', 'bfs'):
            for inverse in (False, True):
                starts = [None, []]
                if labels:
                    starts.append(rng.sample(labels, rng.randint(1, min(3, len(labels)))))
                    s = rng.sample(labels, rng.randint(1, min(2, len(labels))))
                    starts.append(s + s[:1])
                for st in starts:
                    kw = {'inverse': inverse}
                    if rng.random() < 0.5:
                        kw['topsort_unvisited'] = True
                    # caller-supplied hooks in random combinations (the monitor chains to them)
                    seen = []
                    # hooks either look at the hooked gate only, or consult the state mapping they are handed for the
                    # gate's neighbours / all gates (reference counting, "are all my users done?" style hooks)
                    peek = rng.choice(['none', 'none', 'neighbours', 'all'])

                    def look(g, s_, _peek=peek):
                        seen.append(g.label)
                        if _peek == 'neighbours':
                            for l in list(users_map.get(g.label, [])) + list(ops_map.get(g.label, ())):
                                s_[l]
                        elif _peek == 'all':
                            for l in labels:
                                s_[l]
                    if peek != 'none':
                        ctx.count('peeking_hooks')
                    if rng.random() < 0.5:
                        kw['on_enter_hook'] = look
                    if rng.random() < 0.5:
                        kw['on_discover_hook'] = look if rng.random() < 0.5 else (lambda g, s_: None)
                    if mode == 'dfs' and rng.random() < 0.5:
                        kw['on_exit_hook'] = look
                    if rng.random() < 0.5:
                        kw['unvisited_hook'] = look
                    fn = c.dfs if mode == 'dfs' else c.bfs
                    _consume(fn(st, **kw) if st is not None or rng.random() < 0.5 else fn(**kw))
                    eff = st if st is not None else (list(net.inputs) if inverse else list(net.outputs))
                    reach = _closure(users_map if inverse else ops_map, eff)
                    nontrivial = (0 < len(reach) < len(labels)) or shared
                    ctx.case('%s:%s:%s:%r:%r' % (sh, mode, inverse, st, sorted(kw)), nontrivial,
                             cls='mode:%s/%s' % (mode, 'inv' if inverse else 'fwd'),
                             sample={'net': case['net'], 'mode': mode, 'inverse': inverse, 'start': st,
                                     'reachable': len(reach), 'gates': len(labels)} if nontrivial and st else None)
        # traversals are lazy generators: two of them consumed in lockstep (also on two circuits), and one started from
        # inside a hook of another - each must still yield exactly its own reachable set
        if labels:
            import copy as _copy
            with monitor.suspended():
                other = _copy.deepcopy(c)
            pairs = [(c.dfs(), c.bfs(inverse=True)), (c.bfs(), other.dfs()), (c.dfs(inverse=True), c.dfs())]
            for g1, g2 in pairs:
                for _x, _y in itertools.zip_longest(g1, g2):
                    pass
                ctx.count('lockstep_traversals')

            def nested(g, s_):
                if g.label == labels[len(labels) // 2]:
                    _consume(c.bfs())
                    try:
                        validation.check_circuit_has_no_cycles(c)
                    except Exception:
                        pass
            _consume(c.dfs(on_enter_hook=nested))
            _consume(c.bfs(inverse=True, on_enter_hook=nested))
            ctx.count('nested_traversals')
        validation.check_circuit_has_no_cycles(c)
    except Exception as e:
        ctx.unexpected('traversals', e, case)
        return
    # cyclic variant through the bench parser (public): re-point one operand to a transitive user
    cand = [l for l, (t, ops) in net.gates.items() if ops]
    if cand and case.get('cyclic', True):
        g = rng.choice(cand)
        down = _closure(users_map, [g])
        tgt = rng.choice(sorted(down))
        t, ops = net.gates[g]
        k = rng.randrange(len(ops))
        cyc = net.copy()
        cyc.gates[g] = (t, ops[:k] + (tgt,) + ops[k + 1:])
        if all(_plain(l) for l in cyc.gates) and not any(tt in refsem.CONST and oo for tt, oo in cyc.gates.values()):
            text = refsem.to_bench(cyc)
            CUR['case'] = dict(case, cyclic_bench=text)
            try:
                cc = Circuit.from_bench_string(text)
            except Exception as e:
                ctx.count('cyclic_build_failed:' + type(e).__name__)
                cc = None
            if cc is not None:
                reachable_cycle = _cycle_reachable_from_outputs(cc)
                if not reachable_cycle:
                    ctx.count('cycle:unreachable_cycle')
                try:
                    validation.check_circuit_has_no_cycles(cc)
                except Exception:
                    pass
                # explicit start lists of every kind a caller may pass: subsets, lists with repeated labels (drawn with
                # replacement) of length 1 .. size+1, the output list, all gates
                cl = list(cc.gates)
                starts = [[], list(cc.outputs), list(cl)]
                for ln in sorted({1, 2, max(1, len(cl) // 2), max(1, len(cl) - 1), len(cl), len(cl) + 1}):
                    starts.append([rng.choice(cl) for _ in range(ln)])
                    down_free = [l for l in cl if l not in down]
                    if down_free:
                        starts.append([rng.choice(down_free) for _ in range(ln)])   # avoids the cycle on purpose
                for st_ in starts:
                    CUR['case'] = dict(case, cyclic_bench=text, start_gates=st_)
                    try:
                        validation.check_circuit_has_no_cycles(cc, st_)
                    except Exception:
                        pass
                    ctx.count('cycle:explicit_start_lists')
                ctx.case('%s:cyclic:%s:%d:%s' % (sh, g, k, tgt), True, cls='mode:cycle_check')
            CUR['case'] = case


def _plain(l):
    u = l.upper()
    return not (u.startswith('INPUT') or u.startswith('OUTPUT')) and '@' not in l


def gen_case(rng, spec):
    shape = rng.choice(netgen.SHAPES)
    net = netgen.rand_net(rng, shape=shape, max_in=5, min_in=0 if rng.random() < 0.05 else 1, max_g=spec.get('max_g', 14), max_arity=4, const_operands=False)
    case = {'kind': 'random', 'shape': shape, 'net': netgen.describe(net), 'rseed': rng.getrandbits(32),
            'shuffle': rng.random() < 0.3, 'edited': rng.random() < 0.3,
            'compose': rng.getrandbits(32) if rng.random() < 0.25 else None}
    if spec.get('kind') == 'deep':   # a long dependency chain
        case.update(net=netgen.deep_description(rng, spec['depths']), shape='deep', shuffle=False, edited=False, cyclic=False)
    return case


def run_shard(spec, ctx):
    install(ctx)
    if spec.get('kind') == 'suite':
        from vt import suite
        import sys
        suite.run(sys.modules[__name__], ctx, select=spec.get('select'))
        return
    for i in range(spec['count']):
        if ctx.out_of_time():
            ctx.count('stopped_on_budget')
            break
        check_case(gen_case(ctx.rng, spec), ctx)


def replay(case, ctx):
    install(ctx)
    check_case(case, ctx)
