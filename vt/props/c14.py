"""C14 - conversion to the bench basis preserves the function.

Post-condition monitor on the real Circuit.into_bench (interface, reference
truth table, remaining gate types, well-formedness, helper gates inside the
blocks of the rewritten gate) and on into_graphviz_digraph(as_bench=True)
(argument untouched)."""
from __future__ import annotations

import random

from vt import monitor, netgen, refsem, wf

ID = 'C14'
LEVEL = 'exploration'
RULE = ('random circuits (>=1 input) over all gate types incl. comparison gates with identical operands, L*/R* gates, '
        'constants with 0 and >=1 operands, rewritten gates that are outputs / block members / operands of other rewritten '
        'gates, shuffled storage; all 2^n assignments. distinct = structural hash (+block layout); non-trivial = >=1 gate was '
        'rewritten.')
ANCHOR_FILES = ['cirbo/core/circuit/converters.py', 'cirbo/core/circuit/circuit.py']
ASSUMPTIONS = ['vt.refsem truth tables; vt.wf']
ALLOWED = {'INPUT', 'NOT', 'AND', 'OR', 'NAND', 'NOR', 'XOR', 'NXOR', 'IFF'}
CONVERTIBLE = ['LT', 'LEQ', 'GT', 'GEQ', 'LIFF', 'RIFF', 'LNOT', 'RNOT', 'ALWAYS_TRUE', 'ALWAYS_FALSE']
REQUIRED = {'mon:into_bench.checked': 200, 'mon:into_graphviz_digraph.checked': 20, 'with_blocks': 50,
            'rewritten_in_block': 20, 'const_with_operands': 10, 'identical_operands': 10, 'reconverted_after_edit': 30, 'deep_circuits': 2}
REQUIRED.update({'rewritten:' + t: 5 for t in CONVERTIBLE})

CUR = {'ctx': None, 'case': None}


def shards(tier, seed):
    per = 250 if tier == 'quick' else 25000
    budget = 40 if tier == 'quick' else 500
    _out = [{'kind': 'random', 'count': per, 'budget_s': budget, 'max_g': 12 if tier == 'quick' else 30}
            for _ in range(16)]
    # long dependency chains (ripple / iterated constructions), far beyond the interpreter's recursion limit
    _out.append({'kind': 'deep', 'count': 3 if tier == 'quick' else 40, 'budget_s': budget,
                 'depths': [1200, 2500, 4000] if tier == 'quick' else [900, 1000, 1100, 1500, 3000, 6000, 12000]})
    if tier == 'thorough':
        _out.append({'kind': 'suite', 'select': ['tests/cirbo/core'], 'budget_s': 900})
    return _out


@monitor.outer_only
def pre_into_bench(args, kwargs):
    c = args[0]
    with monitor.suspended():
        clean = not wf.errors(c, check_copy=False)
    return {'clean': clean, 'net': refsem.net_of(c),
            'blocks': {n: (list(b.inputs), list(b.gates), list(b.outputs)) for n, b in c.blocks.items()}}


@monitor.outer_only
def post_into_bench(st, args, kwargs, result):
    c = args[0]
    ctx = CUR['ctx']
    if not st['clean'] or not st['net'].inputs:
        ctx.mon('into_bench', 'skipped_domain')
        return
    ctx.mon('into_bench')
    a = st['net']

    def V(disc, msg):
        ctx.violation('Circuit.into_bench', 'wrong_result', disc, msg, CUR['case'])

    if result is not c:
        V('return_value', 'did not return the circuit itself')
    r = refsem.net_of(c)
    if r.inputs != a.inputs:
        V('inputs', 'inputs %r became %r' % (a.inputs, r.inputs))
        return
    if r.outputs != a.outputs:
        V('outputs', 'outputs %r became %r' % (a.outputs, r.outputs))
        return
    left = {t for t, _ in r.gates.values()}
    if not left <= ALLOWED:
        V('types_left', 'gate types left after conversion: %r' % sorted(left - ALLOWED))
    with monitor.suspended():
        errs = wf.errors(c)
    if errs:
        ctx.violation('Circuit.into_bench', 'invariant', 'not_wf:' + _tag(errs[0]), 'not well formed: ' + '; '.join(errs[:3]), CUR['case'])
        return
    for g in a.gates:
        if g not in r.gates:
            V('gate_lost', 'gate %r disappeared' % g)
            return
    if len(a.inputs) <= 10:
        va, ns = refsem.truth_tables(a)
        vr, _ = refsem.truth_tables(r)
        for g in a.gates:
            if va[g] != vr[g]:
                V('function_changed', 'gate %r (%s%r -> %s%r) changed its truth table' % (g, a.gates[g][0], a.gates[g][1], r.gates[g][0], r.gates[g][1]))
                return
    # helper gates
    new = [g for g in r.gates if g not in a.gates]
    rewritten = [g for g in a.gates if r.gates[g] != a.gates[g]]
    for t in {a.gates[g][0] for g in rewritten}:
        ctx.count('rewritten:' + t)
    for h in new:
        owners = [g for g in rewritten if h in r.gates[g][1]]
        if not owners:
            V('orphan_helper', 'new gate %r is not an operand of any rewritten gate' % h)
            return
        for g in owners:
            for bn, (bi, bg, bo) in st['blocks'].items():
                if g in bg:
                    ctx.count('rewritten_in_block')
                    if bn not in c.blocks or h not in c.blocks[bn].gates:
                        V('helper_outside_block', 'helper %r of rewritten gate %r is not in block %r' % (h, g, bn))
                        return
    for bn, (bi, bg, bo) in st['blocks'].items():
        if bn not in c.blocks:
            V('block_lost', 'block %r disappeared' % bn)
            return
        b = c.blocks[bn]
        if list(b.inputs) != bi or list(b.outputs) != bo or [x for x in b.gates if x in a.gates] != bg:
            V('block_changed', 'block %r members/inputs/outputs changed' % bn)
            return


def _tag(e):
    for key, tag in [('users', 'users_index'), ('inputs list', 'inputs_list'), ('does not exist', 'dangling'),
                     ('cycle', 'cycle'), ('top_sort', 'top_sort'), ('block', 'block'), ('copy', 'copy')]:
        if key in e:
            return tag
    return 'other'


@monitor.outer_only
def pre_graphviz(args, kwargs):
    if not kwargs.get('as_bench'):
        return None
    return wf.deep_snapshot(args[0])


@monitor.outer_only
def post_graphviz(st, args, kwargs, result):
    if st is None:
        return
    ctx = CUR['ctx']
    ctx.mon('into_graphviz_digraph')
    if wf.deep_snapshot(args[0]) != st:
        ctx.violation('Circuit.into_graphviz_digraph', 'wrong_result', 'argument_modified',
                      'drawing as bench modified the circuit', CUR['case'])


def install(ctx):
    from cirbo.core.circuit import Circuit
    CUR['ctx'] = ctx
    monitor.attach(Circuit, 'into_bench', pre=pre_into_bench, post=post_into_bench, counter=ctx.moncounter('into_bench'))
    monitor.attach(Circuit, 'into_graphviz_digraph', pre=pre_graphviz, post=post_graphviz)


def check_case(case, ctx):
    CUR['case'] = case
    if case.get('kind') == 'deep':
        net = netgen.deep_net(random.Random(case['dseed']), case['depth'], types=DEEP_TYPES)
        ctx.count('deep_circuits')
    else:
        net = netgen.from_description(case['net'])
    rng = random.Random(case['rseed'])
    with monitor.suspended():
        try:
            c = netgen.build(net, rng=rng, shuffle_storage=case.get('shuffle', False))
            for bn, (gs, outs, ins) in case.get('blocks', {}).items():
                c.make_block(bn, gs, outs, ins)
        except Exception as e:
            ctx.count('build_failed:' + type(e).__name__)
            return
    if case.get('blocks'):
        ctx.count('with_blocks')
    if any(t in refsem.CONST and ops for t, ops in net.gates.values()):
        ctx.count('const_with_operands')
    if any(t in refsem.BINARY_ONLY and ops[0] == ops[1] for t, ops in net.gates.values()):
        ctx.count('identical_operands')
    will_rewrite = any(t in CONVERTIBLE for t, _ in net.gates.values())
    try:
        if case.get('graphviz'):
            c.into_graphviz_digraph(as_bench=True, draw_blocks=False)
        c.into_bench()
        # second conversion must be a no-op w.r.t. the property as well
        c.into_bench()
    except Exception as e:
        ctx.unexpected('Circuit.into_bench', e, case)
    if case.get('reconvert'):
        # convert - edit through public calls - convert again: labels of converted gates are given back to new
        # comparison / one-sided / constant gates over other operands (the old gate is renamed away or removed)
        gt = netgen.gate_type_by_name()
        order = list(net.gates)
        made = 0
        with monitor.suspended():
            try:
                for X in rng.sample(order, len(order)):
                    t, ops = net.gates[X]
                    if t not in CONVERTIBLE or not c.has_gate(X) or made >= 2:
                        continue
                    pool = order[:order.index(X)] or list(net.inputs)
                    if not pool:
                        continue
                    if not c.get_gate_users(X) and X not in c.outputs and rng.random() < 0.5:
                        c.remove_gate(X)
                    else:
                        old_l = 'old%d_%s' % (made, X)
                        if c.has_gate(old_l):
                            continue
                        c.rename_gate(X, old_l)
                    c.emplace_gate(X, gt[t], tuple(rng.choice(pool) for _ in ops))
                    c.set_outputs(list(c.outputs) + [X])
                    made += 1
            except Exception as e:
                ctx.count('reconvert_edit_failed:' + type(e).__name__)
                made = 0
        if made:
            ctx.count('reconverted_after_edit')
            try:
                c.into_bench()
            except Exception as e:
                ctx.unexpected('Circuit.into_bench', e, case)
    ctx.case(refsem.structural_hash(net) + repr(sorted(case.get('blocks', {}))), will_rewrite, cls='shape:' + case['shape'],
             sample=({'deep_chain_depth': case['depth'], 'gates': len(net.gates)} if case.get('kind') == 'deep' else
                     {'net': case['net'], 'blocks': case.get('blocks', {})}) if will_rewrite else None)


DEEP_TYPES = ['AND', 'OR', 'XOR', 'NOT', 'IFF', 'LT', 'LEQ', 'GT', 'GEQ', 'LIFF', 'RIFF', 'LNOT', 'RNOT', 'NAND']


def gen_deep_case(rng, spec):
    return {'kind': 'deep', 'shape': 'deep', 'depth': rng.choice(spec['depths']), 'dseed': rng.getrandbits(32),
            'rseed': rng.getrandbits(32), 'shuffle': False, 'blocks': {}, 'graphviz': False, 'reconvert': False}


def gen_case(rng, spec):
    if spec.get('kind') == 'deep':
        return gen_deep_case(rng, spec)
    shape = rng.choice(netgen.SHAPES + ['consts', 'dups'])
    types = None
    if rng.random() < 0.5:
        types = CONVERTIBLE + ['AND', 'OR', 'NOT', 'XOR', 'IFF']
    net = netgen.rand_net(rng, shape=shape, max_in=5, min_in=1, max_g=spec.get('max_g', 12), max_arity=4, types=types,
                          p_repeat_operand=0.25 if rng.random() < 0.4 else None)
    blocks = {}
    inner = [l for l, (t, o) in net.gates.items() if t != 'INPUT']
    if inner and rng.random() < 0.5:
        for k in range(rng.randint(1, 2)):
            gs = rng.sample(inner, rng.randint(1, min(4, len(inner))))
            blocks['b%d' % k] = [gs, gs[:1], None]
    return {'kind': 'random', 'shape': shape, 'net': netgen.describe(net), 'rseed': rng.getrandbits(32),
            'shuffle': rng.random() < 0.3, 'blocks': blocks, 'graphviz': rng.random() < 0.1, 'reconvert': rng.random() < 0.3}


def run_shard(spec, ctx):
    install(ctx)
    if spec.get('kind') == 'suite':
        from vt import suite
        import sys
        suite.run(sys.modules[__name__], ctx, select=spec.get('select'))
        return
    for i in range(spec['count']):
        if ctx.out_of_time():
            ctx.count('stopped_on_budget')
            break
        check_case(gen_case(ctx.rng, spec), ctx)


def replay(case, ctx):
    install(ctx)
    check_case(case, ctx)
