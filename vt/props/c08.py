"""C08 - multiplier and squarer generators compute exact products."""
from __future__ import annotations

import random

from vt import monitor, netgen, refsem
from vt.props import _arith as A

ID = 'C08'
LEVEL = 'exploration'
RULE = ('all six MulMode values through generate_mul and every exported add_mul* directly, both SquareMode values and '
        'add_square*; width pairs exhaustive for n,m<=4 (all operand values), random pairs up to 8 on host circuits '
        '(operands = primary inputs / internal gates / mixed / repeated), targeted widths reaching the Karatsuba threshold '
        'and recursion (17..21, unequal widths with zero padding, 34..38 in the thorough tier) and the squarer split (47..54); '
        'both endiannesses; 4096 bit-parallel samples with corner operands above 12 input bits. distinct = (function, mode, n, '
        'm, endianness, host class); non-trivial = n>=2 and m>=2.')
ANCHOR_FILES = ['cirbo/synthesis/generation/arithmetics/multiplication.py', 'cirbo/synthesis/generation/arithmetics/square.py',
                'cirbo/synthesis/generation/arithmetics/summation.py', 'cirbo/synthesis/generation/arithmetics/subtraction.py']
ASSUMPTIONS = ['vt.refsem bit-parallel evaluation; above 12 input bits the operand space is sampled (4096 vectors incl. corners)']
MUL_FUNCS = ['add_mul', 'add_mul_karatsuba', 'add_mul_karatsuba_with_efficient_sum', 'add_mul_alter', 'add_mul_dadda',
             'add_mul_wallace', 'add_mul_pow2_m1']
REQUIRED = {('mon:%s.checked' % f): 8 for f in MUL_FUNCS + ['generate_mul', 'generate_square', 'add_square', 'add_square_pow2_m1']}
REQUIRED.update({'reach:karatsuba_recursive': 2, 'reach:square_split': 1, 'endian:big': 20, 'host:internal': 10,
                 'unequal_widths': 20, 'width_one': 10, 'skewed_shapes': 30, 'chained_call': 20, 'live_operand_list': 10})
for _m in ('DEFAULT', 'KARATSUBA', 'ALTER', 'DADDA', 'WALLACE', 'POW2_M1'):
    REQUIRED['mulmode:' + _m] = 8

MMOD = 'cirbo.synthesis.generation.arithmetics.multiplication'
SMOD = 'cirbo.synthesis.generation.arithmetics.square'


def shards(tier, seed):
    out = []
    budget = 55 if tier == 'quick' else 570
    small = [(n, m) for n in range(1, 5) for m in range(1, 5)]
    for p in range(4):
        out.append({'kind': 'small', 'pairs': small[p::4], 'budget_s': budget})
    if tier == 'quick':
        for p in range(4):
            out.append({'kind': 'random', 'count': 160, 'budget_s': budget, 'maxw': 7})
        out.append({'kind': 'targeted', 'items': [['KARATSUBA', 18, 18, False]], 'budget_s': budget})
        out.append({'kind': 'targeted', 'items': [['add_mul_karatsuba', 20, 20, False]], 'budget_s': budget})
        out.append({'kind': 'targeted', 'items': [['KARATSUBA', 20, 13, True]], 'budget_s': budget})
        out.append({'kind': 'targeted', 'items': [['square', 48, None, False]], 'budget_s': budget})
        out.append({'kind': 'targeted', 'items': [['add_mul_karatsuba', 36, 36, True]], 'budget_s': budget})
        out.append({'kind': 'targeted', 'items': [['square', 54, None, True]], 'budget_s': budget})
        out.append({'kind': 'targeted', 'items': [['DADDA', 9, 12, False], ['WALLACE', 11, 7, True], ['ALTER', 10, 10, False]], 'budget_s': budget})
        for p in range(3):
            out.append({'kind': 'skewed', 'narrow': [2, 3], 'wide': [11, 13, 30], 'part': p, 'parts': 3, 'budget_s': budget})
        out.append({'kind': 'targeted', 'items': [['DEFAULT', 12, 9, True], ['POW2_M1', 15, 15, False], ['square_pow2', 17, None, True]], 'budget_s': budget})
        # machine-word sized operands for every mode (column heights, carries and recursion splits that small widths never reach)
        for mode in ('DEFAULT', 'ALTER', 'DADDA', 'WALLACE', 'POW2_M1', 'add_mul_pow2_m1'):
            out.append({'kind': 'targeted', 'items': [[mode, 32, 32, mode in ('ALTER', 'WALLACE')], [mode, 24, 33, True], [mode, 27, 25, False]],
                        'budget_s': budget})
        out.append({'kind': 'targeted', 'items': [['square_pow2', 32, None, False], ['square', 33, None, True]], 'budget_s': budget})
    else:
        for p in range(12):
            out.append({'kind': 'random', 'count': 3000, 'budget_s': budget, 'maxw': 12})
        items = []
        for n in (17, 18, 19, 20, 21):
            for mode in ('KARATSUBA', 'add_mul_karatsuba'):
                items.append([mode, n, n, n % 2 == 0])
        for n, m in ((20, 7), (18, 5), (21, 20), (7, 20), (1, 20), (20, 1), (19, 18)):
            items.append(['KARATSUBA', n, m, False])
            items.append(['add_mul_karatsuba', n, m, True])
        for n in (34, 35, 36, 37, 38):
            items.append(['KARATSUBA', n, n, False])
            items.append(['add_mul_karatsuba', n, n, n % 2 == 1])
        for n in (47, 48, 49, 50, 53, 54):
            items.append(['square', n, None, n % 2 == 0])
        for mode in ('DEFAULT', 'ALTER', 'DADDA', 'WALLACE', 'POW2_M1'):
            for n, m in ((16, 16), (13, 21), (24, 9), (31, 31)):
                items.append([mode, n, m, (n + m) % 2 == 0])
        for n in (15, 16, 31, 33):
            items.append(['square_pow2', n, None, False])
        for mode in ('DEFAULT', 'ALTER', 'DADDA', 'WALLACE', 'POW2_M1', 'add_mul_pow2_m1'):
            for n, m in ((32, 32), (24, 33), (27, 25), (33, 24), (40, 40), (25, 24), (64, 64) if mode != 'ALTER' else (48, 48)):
                items.append([mode, n, m, (n + m) % 4 == 0])
        for i in range(0, len(items), 2):
            out.append({'kind': 'targeted', 'items': items[i:i + 2], 'budget_s': budget})
        for p in range(12):
            out.append({'kind': 'skewed', 'narrow': [1, 2, 3, 4, 5], 'wide': [8, 9, 10, 11, 12, 13, 16, 17, 20, 24, 30, 33],
                        'part': p, 'parts': 12, 'budget_s': budget})
    return out


def expected_len(n, m):
    return n + m - 1 if (n == 1 or m == 1) else n + m


def install(ctx):
    A.CUR['ctx'] = ctx
    A.CUR['prop'] = 'C08'

    def rng():
        return random.Random(repr(A.CUR['case'])[:200])

    def pre_add(args, kwargs):
        return A.snapshot(args[0])

    def post_mul(name):
        def post(st, args, kwargs, result):
            a = A.operand_list(args[1] if len(args) > 1 else kwargs['input_labels_a'], 0)
            b = A.operand_list(args[2] if len(args) > 2 else kwargs['input_labels_b'], 1)
            if a is None or b is None:
                ctx.mon(name, 'skipped_one_shot_iterable')
                return
            be = kwargs.get('big_endian', False)
            n, m = len(a), len(b)
            L = len(result)
            A.check_call(name, st, args[0], [A.le(a, be), A.le(b, be)], [A.le(result, be)],
                         lambda x, y: (x * y,), expect_lengths=[expected_len(n, m)], rng=rng())
            ctx.mon(name)
        return post

    for f in MUL_FUNCS:
        A.attach(MMOD, f, pre_add, post_mul(f))

    def post_square(name):
        def post(st, args, kwargs, result):
            a = A.operand_list(args[1] if len(args) > 1 else kwargs['input_labels'], 0)
            if a is None:
                ctx.mon(name, 'skipped_one_shot_iterable')
                return
            be = kwargs.get('big_endian', False)
            n = len(a)
            A.check_call(name, st, args[0], [A.le(a, be)], [A.le(result, be)], lambda x: (x * x,),
                         expect_lengths=[1 if n == 1 else 2 * n], rng=rng())
            ctx.mon(name)
        return post

    A.attach(SMOD, 'add_square', pre_add, post_square('add_square'))
    A.attach(SMOD, 'add_square_pow2_m1', pre_add, post_square('add_square_pow2_m1'))

    def pre_none(args, kwargs):
        return None

    def post_gen_mul(st, args, kwargs, result):
        n = args[0] if args else kwargs['size_of_input_a']
        m = args[1] if len(args) > 1 else kwargs['size_of_input_b']
        be = kwargs.get('big_endian', False)
        c = result
        ins = list(c.inputs)
        ctx.mon('generate_mul')
        if len(ins) != n + m:
            ctx.violation('generate_mul', 'wrong_result', 'shape', '%d inputs for sizes %d,%d' % (len(ins), n, m), A.CUR['case'])
            return
        A.check_call('generate_mul', None, c, [A.le(ins[:n], be), A.le(ins[n:], be)], [A.le(list(c.outputs), be)],
                     lambda x, y: (x * y,), expect_lengths=[expected_len(n, m)], rng=rng())

    A.attach(MMOD, 'generate_mul', pre_none, post_gen_mul)

    def post_gen_square(st, args, kwargs, result):
        n = args[0] if args else kwargs['number_inputs']
        be = kwargs.get('big_endian', False)
        c = result
        ctx.mon('generate_square')
        if len(c.inputs) != n:
            ctx.violation('generate_square', 'wrong_result', 'shape', '%d inputs for n=%d' % (len(c.inputs), n), A.CUR['case'])
            return
        A.check_call('generate_square', None, c, [A.le(list(c.inputs), be)], [A.le(list(c.outputs), be)],
                     lambda x: (x * x,), expect_lengths=[1 if n == 1 else 2 * n], rng=rng())

    A.attach(SMOD, 'generate_square', pre_none, post_gen_square)


def run_item(item, ctx, host_case=None):
    """item: [what, n, m, big_endian]"""
    from cirbo.synthesis.generation import arithmetics as ar
    what, n, m, be = item
    case = {'kind': 'item', 'item': item}
    if host_case:
        case.update(host_case)
    A.CUR['case'] = case
    A.CUR['intended_operands'] = None
    _frng = random.Random(repr(item) + repr((host_case or {}).get('rseed')))
    A.CUR['omit_defaults'] = _frng.random() < 0.5
    if be:
        ctx.count('endian:big')
    if m is not None and n != m:
        ctx.count('unequal_widths')
    if m is not None and (n == 1 or m == 1):
        ctx.count('width_one')
    try:
        if what in ('DEFAULT', 'KARATSUBA', 'ALTER', 'DADDA', 'WALLACE', 'POW2_M1'):
            ctx.count('mulmode:' + what)
            if what == 'KARATSUBA' and (max(n, m) >= 20 or max(n, m) == 18):
                ctx.count('reach:karatsuba_recursive')
            g = ar.generate_mul(n, m, type=ar.MulMode[what], **A.be_kwargs(be))
            if n * m <= 64:
                A.own_and_edit(g, random.Random(n * 100 + m))
                ar.generate_mul(n, m, type=ar.MulMode[what], **A.be_kwargs(be))
        elif what == 'square':
            if n >= 48 and n not in (49, 53):
                ctx.count('reach:square_split')
            ar.generate_square(n, type=ar.SquareMode.DEFAULT, **A.be_kwargs(be))
        elif what == 'square_pow2':
            g = ar.generate_square(n, type=ar.SquareMode.POW2_M1, **A.be_kwargs(be))
            if n <= 8:
                A.own_and_edit(g, random.Random(n))
                ar.generate_square(n, type=ar.SquareMode.POW2_M1, **A.be_kwargs(be))
        elif what in ('add_square', 'add_square_pow2_m1'):
            host = netgen.from_description(host_case['host'])
            with monitor.suspended():
                c = netgen.build(host)
            ctx.count('host:' + host_case['mode'])
            A.CUR['intended_operands'] = [list(host_case['operands'][0])]
            getattr(ar, what)(c, A.flavour(_frng, host_case['operands'][0], ctx), **A.be_kwargs(be))
        else:
            if host_case:
                host = netgen.from_description(host_case['host'])
                with monitor.suspended():
                    c = netgen.build(host)
                ctx.count('host:' + host_case['mode'])
                if _frng.random() < 0.3:
                    A.under_construction(c, _frng, ctx)
                a, b = host_case['operands']
            else:
                from cirbo.core.circuit import Circuit
                with monitor.suspended():
                    c = Circuit.bare_circuit(n + m)
                a, b = list(c.inputs[:n]), list(c.inputs[n:])
            if what == 'add_mul_karatsuba' and (max(n, m) >= 20 or max(n, m) == 18):
                ctx.count('reach:karatsuba_recursive')
            if host_case and host_case.get('live_b'):
                # the caller passes what an accessor returned: the host's own live input list as the second operand
                b = c.inputs
                ctx.count('live_operand_list')
            A.CUR['intended_operands'] = [list(a), list(b)]
            if host_case and host_case.get('live_b'):
                first = getattr(ar, what)(c, A.flavour(_frng, a, ctx), b, **A.be_kwargs(be))
            elif host_case and host_case.get('same_list_object'):
                first = getattr(ar, what)(c, a, b, **A.be_kwargs(be))
            else:
                first = getattr(ar, what)(c, A.flavour(_frng, a, ctx), A.flavour(_frng, b, ctx), **A.be_kwargs(be))
            # a circuit under construction: further generator calls on the same circuit while the first result is still
            # waiting to be consumed (p = a*b, then q = c*d, then p*q or p+q ...) - each call is judged by the same
            # monitor, for which the earlier result is one more pre-existing gate
            if n * m <= 16 and _frng.random() < 0.6:
                prev = [list(first)]
                for step in range(_frng.randint(1, 2)):
                    w2 = _frng.choice(list(MUL_FUNCS) + ['add_square'])
                    pool = list(c.inputs) + [l for r_ in prev for l in r_]
                    if _frng.random() < 0.5:
                        pool = list(c.inputs)
                    a2 = [_frng.choice(pool) for _ in range(_frng.randint(1, 3))]
                    b2 = [_frng.choice(pool) for _ in range(_frng.randint(1, 3))]
                    be2 = _frng.random() < 0.4
                    ctx.count('chained_call')
                    ctx.count('chained_call:' + w2)
                    if w2 == 'add_square':
                        A.CUR['intended_operands'] = [list(a2)]
                        prev.append(list(ar.add_square(c, list(a2), big_endian=be2)))
                    else:
                        A.CUR['intended_operands'] = [list(a2), list(b2)]
                        prev.append(list(getattr(ar, w2)(c, list(a2), list(b2), big_endian=be2)))
    except Exception as e:
        ctx.unexpected(str(what), e, case)
    ctx.case('%s|%s|%s|%s|%s' % (what, n, m, be, host_case and host_case['mode']), (m is None and n >= 2) or (m is not None and n >= 2 and m >= 2),
             cls='what:' + str(what), sample={'item': item, 'host_mode': host_case and host_case['mode']})


def run_shard(spec, ctx):
    install(ctx)
    rng = ctx.rng
    if spec['kind'] == 'small':
        for n, m in spec['pairs']:
            for what in ('DEFAULT', 'KARATSUBA', 'ALTER', 'DADDA', 'WALLACE', 'POW2_M1') + tuple(MUL_FUNCS):
                for be in (False, True):
                    if ctx.out_of_time():
                        ctx.count('stopped_on_budget')
                        return
                    run_item([what, n, m, be], ctx)
        for n in (1, 2, 3, 4, 5, 6):
            for what in ('square', 'square_pow2'):
                run_item([what, n, None, n % 2 == 0], ctx)
        ctx.info['small_space_parts'] = 1
    elif spec['kind'] == 'skewed':
        # skinny / skewed shapes, systematically: one narrow and one wide operand, every mode (both operand orders)
        grid = [(w, nr, wd, o) for w in ['DEFAULT', 'KARATSUBA', 'ALTER', 'DADDA', 'WALLACE', 'POW2_M1', 'add_mul_karatsuba']
                for nr in spec['narrow'] for wd in spec['wide'] for o in (0, 1)]
        for k, (what, narrow, wide, o) in enumerate(grid):
            if k % spec['parts'] != spec['part']:
                continue
            if ctx.out_of_time():
                ctx.count('stopped_on_budget')
                ctx.note_inconclusive('skewed-shape grid not finished within the budget')
                break
            n, m = (narrow, wide) if o == 0 else (wide, narrow)
            ctx.count('skewed_shapes')
            for be_ in (False, True):      # both bit orders for every shape (an order tied to the grid index leaves holes)
                run_item([what, n, m, be_], ctx)
    elif spec['kind'] == 'targeted':
        for item in spec['items']:
            if ctx.out_of_time():
                ctx.count('stopped_on_budget')
                ctx.note_inconclusive('targeted width %r not reached within the budget' % (item,))
                return
            # the listed bit order for even seeds, the other one for odd seeds: every targeted width is run in both orders
            # over any two consecutive seeds
            be_ = bool(item[3]) ^ (int(ctx.seed) % 2 == 1)
            run_item(item[:3] + [be_], ctx)
            if ctx.tier == 'thorough':
                run_item(item[:3] + [not be_], ctx)
    else:
        for _ in range(spec['count']):
            if ctx.out_of_time():
                ctx.count('stopped_on_budget')
                break
            host = A.make_host(rng, k_inputs=rng.randint(2, 9))
            mode = rng.choice(['inputs', 'internal', 'mixed', 'repeated'])
            if rng.random() < 0.25:
                what = rng.choice(['add_square', 'add_square_pow2_m1'])
                n = rng.randint(1, spec['maxw'])
                ops = [A.pick_bits(rng, host, n, mode)]
                if rng.random() < 0.5:
                    host = A.add_operand_users(host, ops, rng)
                hc = {'host': netgen.describe(host), 'mode': mode, 'operands': ops}
                run_item([what, n, None, rng.random() < 0.4], ctx, hc)
            else:
                what = rng.choice(MUL_FUNCS)
                n, m = rng.randint(1, spec['maxw']), rng.randint(1, spec['maxw'])
                ops = [A.pick_bits(rng, host, n, mode), A.pick_bits(rng, host, m, mode)]
                if rng.random() < 0.6:
                    host = A.add_operand_users(host, ops, rng)
                    ctx.count('host_with_operand_users')
                hc = {'host': netgen.describe(host), 'mode': mode, 'operands': ops}
                if rng.random() < 0.2:
                    hc['live_b'] = True
                    m = len(host.inputs)
                run_item([what, n, m, rng.random() < 0.4], ctx, hc)


def replay(case, ctx):
    install(ctx)
    hc = {k: case[k] for k in ('host', 'mode', 'operands', 'live_b', 'same_list_object', 'rseed') if k in case} or None
    run_item(case['item'], ctx, hc)
