"""C07 - summation generators compute exact sums within the promised basis and size."""
from __future__ import annotations

import random

from vt import monitor, netgen, refsem
from vt.props import _arith as A

ID = 'C07'
LEVEL = 'exploration'
RULE = ('calls of every summation entry point (generate_sum_n_bits, generate_sum_weighted_bits_efficient/naive, '
        'add_sum_n_bits(_easy), add_sum_n_weighted_bits(_naive), add_sum_two_numbers(_with_shift), add_sum_pow2_m1, '
        'add_sum2/3) with n 1..40, weight vectors (equal, distinct, clustered, gaps, duplicates), basis XAIG/AIG as enum and '
        'as strings of any case, both endiannesses, shifts below/equal/above the first width, unequal widths, operands that '
        'are primary inputs, internal gates of a random host, mixed or repeated; all host-input assignments (<=12) or 4096 '
        'samples. distinct = (function, n, weights, basis spelling, endianness, host hash); non-trivial = n>=3.')
ANCHOR_FILES = ['cirbo/synthesis/generation/arithmetics/summation.py', 'cirbo/synthesis/generation/arithmetics/_utils.py',
                'cirbo/synthesis/generation/helpers.py']
ASSUMPTIONS = ['vt.refsem bit-parallel evaluation; documented size bounds: 4.5n-2m (XAIG), 7n-3m (AIG), 5n-2m (naive XAIG)']
FUNCS = ['generate_sum_n_bits', 'generate_sum_weighted_bits_efficient', 'generate_sum_weighted_bits_naive', 'add_sum2',
         'add_sum3', 'add_sum_n_bits', 'add_sum_n_bits_easy', 'add_sum_n_weighted_bits', 'add_sum_n_weighted_bits_naive',
         'add_sum_two_numbers', 'add_sum_two_numbers_with_shift', 'add_sum_pow2_m1']
REQUIRED = {('mon:%s.checked' % f): 15 for f in FUNCS}
REQUIRED.update({'basis:AIG/enum': 20, 'basis:AIG/str': 20, 'basis:XAIG/str': 10, 'host:internal': 50, 'host:inputs': 50,
                 'shift:above': 5, 'shift:equal': 5, 'shift:below': 10, 'endian:big': 30, 'live_operand_list': 10})

MOD = 'cirbo.synthesis.generation.arithmetics.summation'


def shards(tier, seed):
    per = 250 if tier == 'quick' else 15000
    budget = 50 if tier == 'quick' else 560
    return [{'kind': 'random', 'count': per, 'budget_s': budget, 'max_n': 16 if tier == 'quick' else 40} for _ in range(16)]


def _basis_name(b):
    return b.upper() if isinstance(b, str) else b.value


def _bound(kind, basis, n, m):
    b = _basis_name(basis)
    if b == 'AIG':
        return (7 * n - 3 * m, '7n-3m')
    if kind == 'naive':
        return (5 * n - 2 * m, '5n-2m')
    return (4.5 * n - 2 * m, '4.5n-2m')


def install(ctx):
    A.CUR['ctx'] = ctx
    A.CUR['prop'] = 'C07'
    from cirbo.synthesis.generation.helpers import GenerationBasis
    XAIG = GenerationBasis.XAIG

    def pre_add(args, kwargs):
        return A.snapshot(args[0])

    def rng():
        return random.Random(repr(A.CUR['case'])[:200])

    # --- add_sum_n_bits / easy
    def post_sum_n_bits(easy):
        def post(st, args, kwargs, result):
            circuit = args[0]
            ins = list(args[1] if len(args) > 1 else kwargs['input_labels'])
            basis = kwargs.get('basis', XAIG)
            be = kwargs.get('big_endian', False)
            name = 'add_sum_n_bits_easy' if easy else 'add_sum_n_bits'
            res = A.le(result, be)
            n, m = len(ins), len(res)
            ok = A.check_call(name, st, circuit, [], [], None,
                              weighted=([(0, l) for l in ins], list(enumerate(res)), True),
                              basis=None if easy else basis,
                              bound=None if easy else _bound('eff', basis, n, m), rng=rng())
            ctx.mon(name)
            if m != n.bit_length():
                ctx.violation(name, 'wrong_result', 'result_length', 'sum of %d bits returned %d bits' % (n, m), A.CUR['case'])
        return post

    A.attach(MOD, 'add_sum_n_bits', pre_add, post_sum_n_bits(False))
    A.attach(MOD, 'add_sum_n_bits_easy', pre_add, post_sum_n_bits(True))

    def post_sum23(k):
        def post(st, args, kwargs, result):
            ins = list(args[1] if len(args) > 1 else kwargs['input_labels'])
            A.check_call('add_sum%d' % k, st, args[0], [], [], None,
                         weighted=([(0, l) for l in ins], list(enumerate(result)), True), rng=rng())
            ctx.mon('add_sum%d' % k)
        return post

    A.attach(MOD, 'add_sum2', pre_add, post_sum23(2))
    A.attach(MOD, 'add_sum3', pre_add, post_sum23(3))

    def post_weighted(naive):
        def post(st, args, kwargs, result):
            name = 'add_sum_n_weighted_bits_naive' if naive else 'add_sum_n_weighted_bits'
            win = [(int(w), l) for w, l in (args[1] if len(args) > 1 else kwargs.get('input_labels_with_pow'))]
            basis = kwargs.get('basis', XAIG)
            wout = [(int(w), l) for w, l in result]
            A.check_call(name, st, args[0], [], [], None, weighted=(win, wout, True), basis=basis,
                         bound=_bound('naive' if naive else 'eff', basis, len(win), len(wout)), rng=rng())
            ctx.mon(name)
        return post

    def pre_weighted(args, kwargs):
        # the functions may consume an iterator: snapshot only the circuit
        return A.snapshot(args[0])

    A.attach(MOD, 'add_sum_n_weighted_bits', pre_weighted, post_weighted(False))
    A.attach(MOD, 'add_sum_n_weighted_bits_naive', pre_weighted, post_weighted(True))

    def post_two_numbers(st, args, kwargs, result):
        a = list(args[1] if len(args) > 1 else kwargs['input_labels_a'])
        b = list(args[2] if len(args) > 2 else kwargs['input_labels_b'])
        be = kwargs.get('big_endian', False)
        width = max(len(a), len(b)) + 1
        A.check_call('add_sum_two_numbers', st, args[0], [A.le(a, be), A.le(b, be)], [A.le(result, be)],
                     lambda x, y: ((x + y),), expect_lengths=[width], rng=rng())
        ctx.mon('add_sum_two_numbers')

    A.attach(MOD, 'add_sum_two_numbers', pre_add, post_two_numbers)

    def post_shift(st, args, kwargs, result):
        shift = args[1] if len(args) > 1 else kwargs['shift']
        a = list(args[2] if len(args) > 2 else kwargs['input_labels_a'])
        b = list(args[3] if len(args) > 3 else kwargs['input_labels_b'])
        be = kwargs.get('big_endian', False)
        ok = all(isinstance(l, str) and args[0].has_gate(l) for l in result)
        A.check_call('add_sum_two_numbers_with_shift', st, args[0], [A.le(a, be), A.le(b, be)], [A.le(result, be)],
                     lambda x, y: ((x + (y << shift)),), rng=rng())
        ctx.mon('add_sum_two_numbers_with_shift')
        maxv = ((1 << len(a)) - 1) + (((1 << len(b)) - 1) << shift)
        if ok and len(result) < maxv.bit_length():
            ctx.violation('add_sum_two_numbers_with_shift', 'wrong_result', 'result_length',
                          '%d result bits cannot hold a + b*2^%d' % (len(result), shift), A.CUR['case'])

    A.attach(MOD, 'add_sum_two_numbers_with_shift', pre_add, post_shift)

    def post_pow2(st, args, kwargs, result):
        ins = list(args[1] if len(args) > 1 else kwargs['input_labels'])
        basis = kwargs.get('basis', XAIG)
        wout = [(lvl, l) for lvl, col in enumerate(result) for l in col]
        A.check_call('add_sum_pow2_m1', st, args[0], [], [], None, weighted=([(0, l) for l in ins], wout, False),
                     basis=basis, rng=rng())
        ctx.mon('add_sum_pow2_m1')
        if result and len(result[0]) != 1:
            ctx.violation('add_sum_pow2_m1', 'wrong_result', 'level0', 'level 0 has %d bits' % len(result[0]), A.CUR['case'])

    A.attach(MOD, 'add_sum_pow2_m1', pre_add, post_pow2)

    # --- generate_* (stand-alone circuits)
    def pre_none(args, kwargs):
        return None

    def post_gen_sum(st, args, kwargs, result):
        n = args[0] if args else kwargs['n']
        basis = kwargs.get('basis', XAIG)
        be = kwargs.get('big_endian', False)
        c = result
        outs = A.le(list(c.outputs), be)
        ins = list(c.inputs)
        A.check_call('generate_sum_n_bits', None, c, [], [], None,
                     weighted=([(0, l) for l in ins], list(enumerate(outs)), True), basis=basis,
                     bound=_bound('eff', basis, n, len(outs)), rng=rng())
        ctx.mon('generate_sum_n_bits')
        if len(ins) != n or len(outs) != n.bit_length():
            ctx.violation('generate_sum_n_bits', 'wrong_result', 'shape', '%d inputs, %d outputs for n=%d' % (len(ins), len(outs), n), A.CUR['case'])

    A.attach(MOD, 'generate_sum_n_bits', pre_none, post_gen_sum)

    def post_gen_weighted(naive):
        def post(st, args, kwargs, result):
            name = 'generate_sum_weighted_bits_' + ('naive' if naive else 'efficient')
            weights = list(A.CUR['case']['weights'])
            basis = kwargs.get('basis', XAIG)
            c = result
            ins = list(c.inputs)
            outs = list(c.outputs)
            if len(ins) != len(weights):
                ctx.violation(name, 'wrong_result', 'shape', '%d inputs for %d weights' % (len(ins), len(weights)), A.CUR['case'])
                return
            # output levels are not returned by generate_*: they are determined by the identity itself
            # (distinct levels in increasing order); recover them as the unique increasing assignment.
            net = refsem.net_of(c)
            iv, mask, ns = A.sample_inputs(net, rng())
            vals = refsem.eval_net(net, iv, mask)
            lhs = [0] * ns
            for w, l in zip(weights, ins):
                for k, v in enumerate(A.ints_of(vals, [l], ns)):
                    if v:
                        lhs[k] += 1 << w
            ocols = [A.ints_of(vals, [o], ns) for o in outs]
            levels = _recover_levels(lhs, ocols, max(weights) + len(weights) + 2)
            ctx.mon(name)
            if levels is None:
                ctx.violation(name, 'wrong_result', 'sum_identity',
                              'no assignment of pairwise distinct increasing levels to the %d outputs satisfies the sum identity for weights %r' % (len(outs), weights), A.CUR['case'])
                return
            A.check_call(name, None, c, [], [], None, weighted=(list(zip(weights, ins)), list(zip(levels, outs)), True),
                         basis=basis, bound=_bound('naive' if naive else 'eff', basis, len(ins), len(outs)), rng=rng())
        return post

    A.attach(MOD, 'generate_sum_weighted_bits_efficient', pre_none, post_gen_weighted(False))
    A.attach(MOD, 'generate_sum_weighted_bits_naive', pre_none, post_gen_weighted(True))


def _recover_levels(lhs, ocols, maxlevel):
    """Outputs are produced level by level (increasing).  Find increasing distinct levels
    with sum_k out_k*2^lvl_k == lhs for every sample (greedy from the lowest bit)."""
    ns = len(lhs)
    levels = []
    rest = list(lhs)
    lvl = 0
    for col in ocols:
        found = None
        while lvl <= maxlevel:
            # candidate level: this output must equal bit `lvl` of the remaining sum for every sample,
            # and all lower bits of the remainder must be zero
            if all(((rest[k] >> lvl) & 1) == col[k] and (rest[k] & ((1 << lvl) - 1)) == 0 for k in range(ns)):
                found = lvl
                break
            # a level without an output must have bit zero in every sample
            if any((rest[k] >> lvl) & 1 for k in range(ns)):
                return None
            lvl += 1
        if found is None:
            return None
        levels.append(found)
        for k in range(ns):
            if col[k]:
                rest[k] -= 1 << found
        lvl = found + 1
    if any(rest):
        return None
    return levels


# ------------------------------------------------------------------ workload

def gen_weights(rng, n):
    style = rng.choice(['equal', 'distinct', 'clustered', 'gaps', 'dups', 'random'])
    if style == 'equal':
        w = [rng.randint(0, 3)] * n
    elif style == 'distinct':
        w = rng.sample(range(n + 3), n)
    elif style == 'clustered':
        w = [rng.choice([0, 0, 1, 1, 2]) for _ in range(n)]
    elif style == 'gaps':
        w = [rng.choice([0, 3, 4, 9]) for _ in range(n)]
    elif style == 'dups':
        base = [rng.randint(0, 5) for _ in range(max(1, n // 3))]
        w = [rng.choice(base) for _ in range(n)]
    else:
        w = [rng.randint(0, 7) for _ in range(n)]
    return style, w


def gen_basis(rng):
    from cirbo.synthesis.generation.helpers import GenerationBasis
    r = rng.choice(['XAIG/enum', 'AIG/enum', 'AIG/str', 'AIG/str', 'XAIG/str'])
    if r == 'XAIG/enum':
        return r, GenerationBasis.XAIG
    if r == 'AIG/enum':
        return r, GenerationBasis.AIG
    if r == 'AIG/str':
        return r, rng.choice(['AIG', 'aig', 'Aig'])
    return r, rng.choice(['XAIG', 'xaig', 'Xaig'])


def check_case(case, ctx):
    from cirbo.synthesis.generation.helpers import GenerationBasis
    from cirbo.synthesis.generation import arithmetics as ar
    A.CUR['case'] = case
    A.CUR['omit_defaults'] = (int(case.get('rseed', 0) or 0) >> 3) % 2 == 1
    rng = random.Random(case['rseed'])
    f = case['func']
    bname = case.get('basis')
    basis = None
    if bname:
        basis = {'XAIG/enum': GenerationBasis.XAIG, 'AIG/enum': GenerationBasis.AIG}.get(bname, case.get('basis_value'))
        ctx.count('basis:' + bname)
    be = case.get('big_endian', False)
    if be:
        ctx.count('endian:big')
    try:
        if f.startswith('generate_'):
            for rep in range(2):   # the same request twice; the first result is edited by its owner in between
                if f == 'generate_sum_n_bits':
                    g = ar.generate_sum_n_bits(case['n'], basis=basis, **A.be_kwargs(be))
                elif f == 'generate_sum_weighted_bits_efficient':
                    g = ar.generate_sum_weighted_bits_efficient(case['weights'], basis=basis)
                else:
                    g = ar.generate_sum_weighted_bits_naive(case['weights'], basis=basis)
                A.own_and_edit(g, rng)
        else:
            host = netgen.from_description(case['host'])
            with monitor.suspended():
                c = netgen.build(host)
            ctx.count('host:' + case['mode'])
            _uc = random.Random(repr(case.get('rseed')) + 'under_construction')
            if _uc.random() < 0.3:
                A.under_construction(c, _uc, ctx)
            ops = case['operands']
            if case.get('live') and len(ops) == 1:
                # the caller's own list object: the live input / output list of the host (generate_* do this)
                if case['live'] == 'inputs':
                    ops = [c.inputs]
                else:
                    with monitor.suspended():
                        c.set_outputs(list(ops[0]))
                    ops = [c.outputs]
                ctx.count('live_operand_list')
            elif not case.get('same_list_object'):
                # any iterable the signature admits (Iterable[Label]): list, tuple, generator, iterator, map object
                _fr = random.Random(repr(case.get('rseed')) + f)
                ops = [A.flavour(_fr, o, ctx) for o in ops]
            if f == 'add_sum2':
                ar.add_sum2(c, ops[0])
            elif f == 'add_sum3':
                ar.add_sum3(c, ops[0])
            elif f == 'add_sum_n_bits':
                ar.add_sum_n_bits(c, ops[0], basis=basis, **A.be_kwargs(be))
            elif f == 'add_sum_n_bits_easy':
                ar.add_sum_n_bits_easy(c, ops[0], **A.be_kwargs(be))
            elif f == 'add_sum_n_weighted_bits':
                ar.add_sum_n_weighted_bits(c, list(zip(case['weights'], ops[0])), basis=basis)
            elif f == 'add_sum_n_weighted_bits_naive':
                ar.add_sum_n_weighted_bits_naive(c, list(zip(case['weights'], ops[0])), basis=basis)
            elif f == 'add_sum_two_numbers':
                ar.add_sum_two_numbers(c, ops[0], ops[1], **A.be_kwargs(be))
            elif f == 'add_sum_two_numbers_with_shift':
                sh = case['shift']
                n0 = len(case['operands'][0])
                ctx.count('shift:' + ('above' if sh > n0 else ('equal' if sh == n0 else 'below')))
                ar.add_sum_two_numbers_with_shift(c, sh, ops[0], ops[1], **A.be_kwargs(be))
            elif f == 'add_sum_pow2_m1':
                ar.add_sum_pow2_m1(c, ops[0], basis=basis, **A.be_kwargs(be))
    except Exception as e:
        ctx.unexpected(f, e, case)
    key = '%s|%s|%r|%s|%s|%s|%r' % (f, case.get('n'), case.get('weights'), bname, be, case.get('mode'),
                                     case.get('operands') and [len(o) for o in case['operands']])
    n = case.get('n') or (len(case['operands'][0]) if case.get('operands') else len(case.get('weights', [])))
    ctx.case(key + '|' + str(case['rseed'] % 1000), n >= 3, cls='func:' + f,
             sample={k: v for k, v in case.items() if k not in ('host',)} if n >= 3 else None)


def gen_case(rng, spec):
    f = rng.choice(FUNCS + ['add_sum_n_weighted_bits', 'add_sum_two_numbers_with_shift', 'add_sum_n_bits'])
    bname, bval = gen_basis(rng)
    case = {'kind': 'random', 'func': f, 'rseed': rng.getrandbits(32)}
    maxn = spec.get('max_n', 16)
    n = rng.choice([1, 2, 3, 4, 5, 6, 7, 8, 9, 15, 16]) if rng.random() < 0.7 else rng.randint(1, maxn)
    if f in ('generate_sum_n_bits', 'generate_sum_weighted_bits_efficient', 'generate_sum_weighted_bits_naive',
             'add_sum_n_bits', 'add_sum_n_weighted_bits', 'add_sum_n_weighted_bits_naive', 'add_sum_pow2_m1'):
        case['basis'] = bname
        if bname.endswith('/str'):
            case['basis_value'] = bval
    if f in ('generate_sum_n_bits', 'add_sum_n_bits', 'add_sum_n_bits_easy', 'add_sum_two_numbers',
             'add_sum_two_numbers_with_shift', 'add_sum_pow2_m1'):
        case['big_endian'] = rng.random() < 0.4
    if f == 'generate_sum_n_bits':
        case['n'] = n
        return case
    if f.startswith('generate_sum_weighted'):
        n = min(n, 12)
        case['wstyle'], case['weights'] = gen_weights(rng, n)
        return case
    host = A.make_host(rng)
    case['host'] = netgen.describe(host)
    mode = rng.choice(['inputs', 'internal', 'mixed', 'repeated'])
    case['mode'] = mode
    if f == 'add_sum2':
        case['operands'] = [A.pick_bits(rng, host, 2, mode)]
    elif f == 'add_sum3':
        case['operands'] = [A.pick_bits(rng, host, 3, mode)]
    elif f in ('add_sum_n_weighted_bits', 'add_sum_n_weighted_bits_naive'):
        case['operands'] = [A.pick_bits(rng, host, n, mode)]
        case['wstyle'], case['weights'] = gen_weights(rng, n)
    elif f == 'add_sum_two_numbers':
        case['operands'] = [A.pick_bits(rng, host, rng.randint(1, 8), mode), A.pick_bits(rng, host, rng.randint(1, 8), mode)]
    elif f == 'add_sum_two_numbers_with_shift':
        wa, wb = rng.randint(1, 7), rng.randint(1, 7)
        case['operands'] = [A.pick_bits(rng, host, wa, mode), A.pick_bits(rng, host, wb, mode)]
        case['shift'] = rng.choice([0, 1, max(wa - 1, 0), wa, wa + 1, wa + 3, 2 * wa + 2])
    else:
        case['operands'] = [A.pick_bits(rng, host, n, mode)]
    if len(case['operands']) == 1 and f in ('add_sum_n_bits', 'add_sum_n_bits_easy', 'add_sum_pow2_m1') and rng.random() < 0.3:
        case['live'] = rng.choice(['inputs', 'outputs'])
    if rng.random() < 0.5:
        host2 = A.add_operand_users(host, case['operands'], rng)
        case['host'] = netgen.describe(host2)
        case['operand_users'] = True
    return case


def run_shard(spec, ctx):
    install(ctx)
    for i in range(spec['count']):
        if ctx.out_of_time():
            ctx.count('stopped_on_budget')
            break
        check_case(gen_case(ctx.rng, spec), ctx)


def replay(case, ctx):
    install(ctx)
    check_case(case, ctx)
