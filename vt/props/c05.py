"""C05 - the circuit-to-CNF reduction is exact.

Post-condition monitor on the real tseytin_transformation / Cnf.from_circuit /
is_circuit_satisfiable / is_satisfiable.  Oracle: for every total input
assignment x the model set of CNF + (input i = x_i as variable i+1), enumerated
by an own DPLL (vt.satref), has exactly one element iff all selected outputs are
True under the reference interpreter, none otherwise; the non-input variables
carry the reference values of the encoded gates (multiset of value vectors)."""
from __future__ import annotations

import itertools
import random

from vt import monitor, netgen, refsem, satref, wf

ID = 'C05'
LEVEL = 'exploration'
RULE = ('random circuits over all 19 gate types, n-ary arities 2..5, repeated operands, outputs that are inputs, repeated / '
        'empty / partial output selections, unused inputs, constants (with operands too), shared sub-DAGs, deep chains; every '
        'input assignment (n<=6). distinct = (structural hash, output selection); non-trivial = CNF has a non-unit clause and '
        'the selected outputs are neither always nor never all-True.')
ANCHOR_FILES = ['cirbo/sat/cnf/tseytin.py', 'cirbo/sat/cnf/cnf.py', 'cirbo/sat/sat.py']
ASSUMPTIONS = ['vt.refsem; vt.satref (own complete DPLL) enumerates models; z3-backed pysat stand-in for the solver call']
REQUIRED = {'mon:tseytin_transformation.checked': 200, 'mon:is_circuit_satisfiable.checked': 100,
            'mon:is_satisfiable.checked': 100, 'selection:None': 50, 'selection:partial': 50, 'selection:repeated': 10,
            'selection:empty': 10, 'nary_xor': 10, 'sat:True': 20, 'sat:False': 20, 'strong_vector_check': 50, 'wide_gate': 10}

CUR = {'ctx': None, 'case': None}


def shards(tier, seed):
    per = 220 if tier == 'quick' else 9000
    budget = 45 if tier == 'quick' else 540
    _out = [{'kind': 'random', 'count': per, 'budget_s': budget, 'max_g': 10 if tier == 'quick' else 22} for _ in range(16)]
    _out.append({'kind': 'deep', 'count': 2 if tier == 'quick' else 20, 'budget_s': budget,
                 'depths': [1100, 1400] if tier == 'quick' else netgen.DEEP_THOROUGH})
    if tier == 'quick':
        for part in range(8):
            _out.append({'kind': 'size_sweep', 'type': 'NOT', 'lengths': list(range(1 + part, 701, 8)), 'budget_s': budget})
    else:
        for t, top in (('NOT', 2600), ('AND', 1800), ('XOR', 1300), ('GEQ', 1800)):
            for part in range(8):
                _out.append({'kind': 'size_sweep', 'type': t, 'lengths': list(range(1 + part, top + 1, 8)), 'budget_s': budget})
    if tier == 'thorough':
        _out.append({'kind': 'suite', 'select': ['tests/cirbo/sat', 'tests/cirbo/minimization'], 'budget_s': 900})
    return _out


def _cone(net, roots):
    seen, st = set(), list(roots)
    while st:
        g = st.pop()
        if g in seen:
            continue
        seen.add(g)
        st.extend(net.gates[g][1])
    return seen


def check_cnf(api, net, sel, clauses, ctx, case, strong=False):
    """Decide exactness of `clauses` for netlist `net` and selected output indices `sel`.
    strong=True: `clauses` has no output assertions; then every x has exactly one model."""
    n = len(net.inputs)

    def V(disc, msg):
        ctx.violation(api, 'wrong_result', disc, msg, case)

    if n > 8:
        return None
    for c in clauses:
        if not c or any((not isinstance(l, int)) or l == 0 for l in c):
            V('malformed_clause', 'clause %r' % (c,))
            return None
    vals, ns = refsem.truth_tables(net)
    T = (1 << ns) - 1
    if not strong:
        for j in sel:
            T &= vals[net.outputs[j]]
    occurring = sorted({abs(l) for c in clauses for l in c})
    gate_vars = [v for v in occurring if v > n]
    roots = [net.outputs[j] for j in sel]
    cone_gates = sorted(g for g in _cone(net, roots) if net.gates[g][0] != 'INPUT')
    vectors = {v: 0 for v in gate_vars}
    bit = 0
    nT = 0
    for k in range(ns):
        assum = []
        for i in range(n):
            v = (k >> (n - 1 - i)) & 1
            assum.append((i + 1) if v else -(i + 1))
        models = satref.count_models(clauses, gate_vars, assumptions=assum, limit=3)
        want = 1 if (T >> k) & 1 else 0
        if len(models) != want:
            V('model_count', 'inputs %s: %d model(s) of CNF+inputs, expected %d (all selected outputs True: %r)' % (
                bin(k), len(models), want, bool(want)))
            return None
        if want:
            nT += 1
            for v in gate_vars:
                if models[0][v]:
                    vectors[v] |= 1 << bit
            bit += 1
    # multiset of value vectors of non-input variables == multiset of reference vectors of encoded gates
    ref_vecs = []
    for g in cone_gates:
        vec, b = 0, 0
        for k in range(ns):
            if (T >> k) & 1:
                if (vals[g] >> k) & 1:
                    vec |= 1 << b
                b += 1
        ref_vecs.append(vec)
    got_vecs = sorted(vectors.values())
    if nT and got_vecs != sorted(ref_vecs):
        V('gate_values', 'non-input variables take value vectors %r over the satisfying inputs, the encoded gates %r take %r' % (
            got_vecs[:8], cone_gates[:8], sorted(ref_vecs)[:8]))
        return None
    nonunit = any(len(c) > 1 for c in clauses)
    return nonunit and 0 < nT < ns


def post_tseytin(st, args, kwargs, result):
    ctx = CUR['ctx']
    circuit = args[0] if args else kwargs['circuit']
    outs = args[1] if len(args) > 1 else kwargs.get('outputs')
    with monitor.suspended():
        if wf.errors(circuit, check_copy=False, check_topsort=False):
            ctx.mon('tseytin_transformation', 'skipped_not_wf')
            return
    net = refsem.net_of(circuit)
    sel = list(range(len(net.outputs))) if outs is None else list(outs)
    if len(net.inputs) > 8:
        ctx.mon('tseytin_transformation', 'skipped_large')
        return
    ctx.mon('tseytin_transformation')
    clauses = [list(c) for c in result.get_raw()]
    nt = check_cnf('tseytin_transformation', net, sel, clauses, ctx, CUR['case'])
    CUR['last_nontrivial'] = bool(nt)
    # stronger form: one selected output, its assertion is the last clause -> drop it, every x has one model
    if len(sel) == 1 and clauses and clauses[-1] and len(clauses[-1]) == 1 and clauses[-1][0] > 0:
        ctx.count('strong_vector_check')
        check_cnf('tseytin_transformation', net, sel, clauses[:-1], ctx, CUR['case'], strong=True)


def _pre_sat(args, kwargs):
    circuit = args[0] if args else kwargs['circuit']
    with monitor.suspended():
        if wf.errors(circuit, check_copy=False, check_topsort=False):
            return None
    return refsem.net_of(circuit)


def post_circuit_sat(net, args, kwargs, result):
    ctx = CUR['ctx']
    if net is None or len(net.inputs) > 10:
        ctx.mon('is_circuit_satisfiable', 'skipped_domain')
        return
    ctx.mon('is_circuit_satisfiable')
    circuit = args[0] if args else kwargs['circuit']
    n = len(net.inputs)
    vals, ns = refsem.truth_tables(net)
    T = (1 << ns) - 1
    for o in net.outputs:
        T &= vals[o]

    def V(disc, msg):
        ctx.violation('is_circuit_satisfiable', 'wrong_result', disc, msg, CUR['case'])

    if bool(result.answer) != (T != 0):
        V('answer', 'answer %r but %s assignment makes all outputs True' % (result.answer, 'some' if T else 'no'))
        return
    ctx.count('sat:%s' % bool(result.answer))
    if result.answer:
        model = list(result.model or [])
        with monitor.suspended():
            from cirbo.sat.cnf import Cnf
            clauses = Cnf.from_circuit(circuit).get_raw()
        ms = set(model)
        if 0 in ms or any(-l in ms for l in ms) or any(not isinstance(l, int) for l in model):
            V('model_not_an_assignment', 'returned model %r is not an assignment (a variable with both polarities / a zero literal)' % (model[:12],))
            return
        if not satref.check_model(clauses, model):
            V('model_violates_cnf', 'returned model does not satisfy the CNF of the circuit')
            return
        free = [i for i in range(n) if (i + 1) not in ms and -(i + 1) not in ms]
        for fill in itertools.product((0, 1), repeat=len(free)):
            k = 0
            fi = dict(zip(free, fill))
            for i in range(n):
                b = fi[i] if i in fi else (1 if (i + 1) in ms else 0)
                k = (k << 1) | b
            if not (T >> k) & 1:
                V('model_projection', 'model projects onto input assignment %s which does not make all outputs True' % bin(k))
                return
    elif result.model is not None:
        V('model_on_unsat', 'answer False but a model was returned')


def post_sat(st, args, kwargs, result):
    ctx = CUR['ctx']
    cnf = args[0] if args else kwargs['cnf']
    clauses = [list(c) for c in cnf.get_raw()]
    nv = max([abs(l) for c in clauses for l in c] + [0])
    if nv > 40 or len(clauses) > 400:
        ctx.mon('is_satisfiable', 'skipped_large')
        return
    ctx.mon('is_satisfiable')
    ref = satref.solve(clauses)
    if bool(result.answer) != (ref is not None):
        ctx.violation('is_satisfiable', 'wrong_result', 'answer', 'answer %r, own DPLL says %s' % (
            result.answer, 'satisfiable' if ref is not None else 'unsatisfiable'), CUR['case'])
        return
    if result.answer and not satref.check_model(clauses, list(result.model or [])):
        ctx.violation('is_satisfiable', 'wrong_result', 'model_violates_cnf', 'returned model does not satisfy the CNF', CUR['case'])


def install(ctx):
    import importlib
    CUR['ctx'] = ctx
    ts = importlib.import_module('cirbo.sat.cnf.tseytin')
    w = monitor.attach(ts, 'tseytin_transformation', post=post_tseytin, counter=ctx.moncounter('tseytin_transformation'))
    import cirbo.sat.cnf as cnfpkg
    import cirbo.sat as satpkg
    for m in (cnfpkg, satpkg):
        if getattr(m, 'tseytin_transformation', None) is not None:
            orig = m.tseytin_transformation
            m.tseytin_transformation = w
            monitor._installed.append((m, 'tseytin_transformation', orig))
    sm = importlib.import_module('cirbo.sat.sat')
    w1 = monitor.attach(sm, 'is_circuit_satisfiable', pre=_pre_sat, post=post_circuit_sat)
    w2 = monitor.attach(sm, 'is_satisfiable', post=post_sat)
    sc = importlib.import_module('cirbo.minimization.subcircuit')
    for m in (satpkg, sc):
        for nm, w_ in (('is_circuit_satisfiable', w1), ('is_satisfiable', w2)):
            if getattr(m, nm, None) is not None:
                orig = getattr(m, nm)
                setattr(m, nm, w_)
                monitor._installed.append((m, nm, orig))


def check_case(case, ctx):
    from cirbo.sat import is_circuit_satisfiable, is_satisfiable, tseytin_transformation
    from cirbo.sat.cnf import Cnf
    CUR['case'] = case
    rng = random.Random(case['rseed'])
    net = netgen.from_description(case['net'])
    with monitor.suspended():
        try:
            c = netgen.build(net, rng=rng, shuffle_storage=case.get('shuffle', False))
        except Exception as e:
            ctx.count('build_failed:' + type(e).__name__)
            return
    if case.get('edited'):
        with monitor.suspended():
            case = dict(case, edits_applied=netgen.random_edits(c, rng))
            CUR['case'] = case
            net = refsem.net_of(c)
        ctx.count('edited_circuits')
    sh = refsem.structural_hash(net)
    if any(t in ('XOR', 'NXOR') and len(o) > 2 for t, o in net.gates.values()):
        ctx.count('nary_xor')
    if any(len(o) >= 8 for t, o in net.gates.values()):
        ctx.count('wide_gate')
    for sel in case['selections']:
        CUR['case'] = dict(case, selection=sel)
        CUR['last_nontrivial'] = False
        try:
            if sel is None:
                cnf = tseytin_transformation(c) if rng.random() < 0.5 else Cnf.from_circuit(c)
            else:
                cnf = tseytin_transformation(c, list(sel))
            is_satisfiable(cnf)
            if rng.random() < 0.3:
                # the caller goes on working with the object it was handed: constrains it further, edits the raw list
                with monitor.suspended():
                    lit = rng.choice([1, -1, 2, -2])
                    if rng.random() < 0.5:
                        cnf.add_clause([lit])
                    else:
                        raw = cnf.get_raw()
                        if isinstance(raw, list):
                            raw.append([lit])
                ctx.count('returned_cnf_edited_by_owner')
        except Exception as e:
            ctx.unexpected('tseytin_transformation', e, CUR['case'])
            continue
        kind = 'None' if sel is None else ('empty' if not sel else ('repeated' if len(set(sel)) < len(sel) else
                                                                  ('partial' if len(sel) < len(net.outputs) else 'all')))
        ctx.count('selection:' + kind)
        ctx.case('%s:%r' % (sh, sel), CUR['last_nontrivial'], cls='shape:' + case['shape'],
                 sample={'net': case['net'], 'selection': sel, 'clauses': cnf.get_raw()[:12]} if CUR['last_nontrivial'] else None)
    CUR['case'] = case
    try:
        is_circuit_satisfiable(c)
    except Exception as e:
        ctx.unexpected('is_circuit_satisfiable', e, case)
    # the property relates the CNF to what the outputs *evaluate* to: the library's own evaluation of the same object is
    # compared with the reference used above (all assignments of small circuits)
    if len(net.inputs) <= 5 and 'deep' not in case.get('net', {}):
        try:
            ints, ns = refsem.output_ints(net)
            n = len(net.inputs)
            for k in range(ns):
                bits = [bool((k >> (n - 1 - i)) & 1) for i in range(n)]
                with monitor.suspended():
                    got = list(c.evaluate(bits))
                want = [bool((v >> k) & 1) for v in ints]
                ctx.count('library_evaluation_compared')
                if not all(g == w for g, w in zip(got, want)) or len(got) != len(want):
                    ctx.violation('Circuit.evaluate', 'wrong_result', 'evaluation_disagrees_with_reference',
                                  'evaluate(%r) = %r, reference %r' % (bits, got, want), case)
                    break
        except Exception as e:
            ctx.unexpected('Circuit.evaluate', e, case)


def run_size_sweep(spec, ctx):
    """Circuit sizes (hence CNF sizes) swept contiguously: a chain of L gates of one type over two inputs, asked once
    with a satisfiable and once with a contradictory pair of outputs.  The answer oracle needs only the truth table."""
    from cirbo.sat import is_circuit_satisfiable
    t = spec['type']
    for L in spec['lengths']:
        if ctx.out_of_time():
            ctx.note_inconclusive('size sweep not finished within the budget')
            return
        g = {'a': ('INPUT', ()), 'b': ('INPUT', ())}
        prev = 'a'
        for k in range(L):
            g['s%d' % k] = (t, (prev,)) if t in ('NOT', 'IFF') else (t, (prev, 'b'))
            prev = 's%d' % k
        g['neg'] = ('NOT', (prev,))
        for outs in ([prev], ['neg', prev]):
            net = refsem.Net(['a', 'b'], list(outs), dict(g))
            case = {'kind': 'size_sweep', 'type': t, 'length': L, 'outputs': list(outs)}
            CUR['case'] = case
            with monitor.suspended():
                c = netgen.build(net)
            try:
                r = is_circuit_satisfiable(c)
                ctx.count('size_sweep:' + ('sat' if r.answer else 'unsat'))
            except Exception as e:
                ctx.unexpected('is_circuit_satisfiable', e, case)
            ctx.case('sweep:%s:%d:%r' % (t, L, outs), True, cls='shape:size_sweep')


def gen_case(rng, spec):
    shape = rng.choice(netgen.SHAPES + ['nary', 'chain'])
    net = netgen.rand_net(rng, shape=shape, max_in=5, min_in=0 if rng.random() < 0.05 else 1, max_g=spec.get('max_g', 10), max_arity=5,
                          n_out=rng.choice([1, 1, 2, 3, 4]), p_wide=0.06,
                          label_style=rng.choice(['plain', 'plain', 'derived', 'derived', 'digits', 'odd']))
    if net.inputs and rng.random() < 0.06:
        # every output is a bare input (feed-through pins only): the CNF then has no gate variables at all
        net = refsem.Net(list(net.inputs), [rng.choice(net.inputs) for _ in range(rng.randint(1, 3))], dict(net.gates))
        shape += '+feedthrough'
    no = len(net.outputs)
    sels = [None]
    if no:
        sels.append([rng.randrange(no)])
        sels.append(sorted(rng.sample(range(no), rng.randint(1, no))))
        if rng.random() < 0.3:
            j = rng.randrange(no)
            sels.append([j, j])
    if rng.random() < 0.15:
        sels.append([])
    case = {'kind': 'random', 'shape': shape, 'net': netgen.describe(net), 'rseed': rng.getrandbits(32),
            'shuffle': rng.random() < 0.2, 'selections': sels, 'edited': rng.random() < 0.3}
    if spec.get('kind') == 'deep':   # a long dependency chain (thousands of clauses, depth far beyond the recursion limit)
        case.update(net=netgen.deep_description(rng, spec['depths']), shape='deep', shuffle=False, edited=False,
                    selections=[None, [0]])
    return case


def run_shard(spec, ctx):
    install(ctx)
    if spec.get('kind') == 'suite':
        from vt import suite
        import sys
        suite.run(sys.modules[__name__], ctx, select=spec.get('select'))
        return
    if spec.get('kind') == 'size_sweep':
        run_size_sweep(spec, ctx)
        return
    for i in range(spec['count']):
        if ctx.out_of_time():
            ctx.count('stopped_on_budget')
            break
        check_case(gen_case(ctx.rng, spec), ctx)
    # deep chain: the encoder recurses
    if spec.get('shard', 0) == 0:
        g = {'x0': ('INPUT', ()), 'x1': ('INPUT', ())}
        prev = 'x0'
        for i in range(200):
            g['c%d' % i] = (('NOT', (prev,)) if i % 3 else ('XOR', (prev, 'x1')))
            prev = 'c%d' % i
        net = refsem.Net(['x0', 'x1'], [prev], g)
        check_case({'kind': 'deep', 'shape': 'deep_chain', 'net': netgen.describe(net), 'rseed': 1, 'selections': [None, [0]]}, ctx)


def replay(case, ctx):
    install(ctx)
    check_case(case, ctx)
