"""Shared machinery of C07 / C08 / C09: post-condition monitors on the real
arithmetic generators (add_* on host circuits, generate_* stand-alone).

Oracle per call: bit-parallel reference evaluation (vt.refsem) of the circuit
after the call over all host-input assignments (<=12 inputs) or 4096 chosen
samples; per sample the integers read from the returned bits must satisfy the
arithmetic identity; frame condition (every pre-existing gate identical, inputs
and outputs untouched unless asked), fresh labels, basis, size bound,
well-formedness."""
from __future__ import annotations

import importlib
import math
import random

from vt import monitor, netgen, refsem, wf

CUR = {'ctx': None, 'case': None, 'prop': None}
import re as _re
_RANDOM_LABEL = _re.compile(r'[0-9a-f]{32}')
# labels the generators created that do not look random (fixed / derived names): hosts reuse them on purpose
FIXED_LABELS = set(['new_zero', 'zero', 'one', 'inf_label', 'carry', 'tmp', 'res'])
NUMBERED = set()
CALLER_LABELS = set()   # labels the workload itself asked for (result_labels=...): not names chosen by the library
GENERATED = []   # circuits returned by generate_* (kept alive; the workload edits them as their owner would)
AIG_FORBIDDEN = {'XOR', 'NXOR'}
NS_MAX = 4096


# ------------------------------------------------------------------ evaluation helpers

def sample_inputs(net, rng, groups=None):
    """Columns for the free inputs of `net`.  groups: optional list of label lists
    (LSB first) forming integer operands made of primary inputs -> corner samples."""
    n = len(net.inputs)
    if n <= 12:
        cols, mask, ns = refsem.canonical_columns(n)
        return dict(zip(net.inputs, cols)), mask, ns
    if groups:
        covered = [l for g in groups for l in g]
        if len(set(covered)) == len(covered) and all(l in net.inputs for l in covered):
            cols, samples, mask, ns = refsem.sample_columns([len(g) for g in groups], NS_MAX, rng)
            iv = {}
            for g, gc in zip(groups, cols):
                for l, c in zip(g, gc):
                    iv[l] = c
            for l in net.inputs:
                if l not in iv:
                    iv[l] = rng.getrandbits(ns)
            return iv, mask, ns
    ns = NS_MAX
    mask = (1 << ns) - 1
    iv = {l: rng.getrandbits(ns) for l in net.inputs}
    return iv, mask, ns


def ints_of(vals, labels, ns):
    """Per-sample integers of a number given by `labels` (LSB first)."""
    out = [0] * ns
    for i, l in enumerate(labels):
        col = vals[l]
        b = 1 << i
        k = 0
        while col:
            tz = (col & -col).bit_length() - 1
            k += tz
            out[k] |= b
            col >>= tz + 1
            k += 1
    return out


def snapshot(c):
    return {'gates': {l: (g.gate_type.name, tuple(g.operands)) for l, g in c.gates.items()},
            'inputs': list(c.inputs), 'outputs': list(c.outputs)}


def frame_errors(before, c, added_outputs=None):
    """Pre-existing gates identical, inputs untouched, outputs untouched (or extended by added_outputs)."""
    errs = []
    now = c.gates
    for l, (t, ops) in before['gates'].items():
        g = now.get(l)
        if g is None:
            errs.append(('gate_removed', 'pre-existing gate %r disappeared' % l))
            break
        if g.gate_type.name != t or tuple(g.operands) != ops:
            errs.append(('gate_changed', 'pre-existing gate %r changed: %s%r -> %s%r' % (l, t, ops, g.gate_type.name, tuple(g.operands))))
            break
    if list(c.inputs) != before['inputs']:
        errs.append(('inputs_changed', 'inputs %r became %r' % (before['inputs'][:8], list(c.inputs)[:8])))
    outs = list(c.outputs)
    if added_outputs is None:
        if outs != before['outputs']:
            errs.append(('outputs_changed', 'outputs changed although not requested: %r -> %r' % (before['outputs'][:8], outs[:8])))
    else:
        want = sorted(before['outputs'] + list(added_outputs))
        if sorted(outs) != want:
            errs.append(('outputs_wrong_set', 'outputs %r, expected the old outputs plus exactly %r' % (outs[:10], list(added_outputs)[:10])))
        else:
            # relative order of the old outputs and of the added labels is kept
            def subseq(sub, seq):
                it = iter(seq)
                return all(x in it for x in sub)
            if not subseq(before['outputs'], outs) and not subseq(before['outputs'], [o for o in outs]):
                errs.append(('outputs_order', 'old outputs were reordered'))
            if len(set(added_outputs)) == len(added_outputs):
                pos = [outs.index(l) if l not in before['outputs'] else
                       max(i for i, o in enumerate(outs) if o == l) for l in added_outputs]
                if pos != sorted(pos):
                    errs.append(('outputs_order', 'result labels are not in the returned order in the output list'))
    return errs


# ------------------------------------------------------------------ the generic post-condition

def check_call(api, before, circuit, operands, outputs, fn, *, weighted=None, basis=None, bound=None,
               added_outputs=None, expect_lengths=None, rng=None, fresh_required=True):
    """operands: list of label lists (LSB first); outputs: list of label lists (LSB first);
    fn(*operand ints) -> tuple of expected ints (one per output number, already reduced mod 2^len).
    weighted: (inputs [(weight,label)], outputs [(level,label)], distinct_levels) for the summation identity."""
    ctx = CUR['ctx']
    case = CUR['case']

    def V(disc, msg, kind='wrong_result'):
        ctx.violation(api, kind, disc, msg, case)

    flat_out = [l for o in outputs for l in o] + ([l for _, l in weighted[1]] if weighted else [])
    for l in flat_out:
        if not isinstance(l, str) or not circuit.has_gate(l):
            V('returned_label_missing', 'returned label %r is not a gate of the circuit' % (l,))
            return False
    if before is not None:
        for d, m in frame_errors(before, circuit, added_outputs):
            V('frame:' + d, m)
            return False
    with monitor.suspended():
        errs = wf.errors(circuit, check_copy=False)
    if errs:
        V('not_wf', '; '.join(errs[:3]), kind='invariant')
        return False
    net = refsem.net_of(circuit)
    new_gates = [l for l in net.gates if before is None or l not in before['gates']]
    if before is None:
        new_gates = [l for l, (t, _) in net.gates.items() if t != 'INPUT']
    if before is not None:
        for l in new_gates:
            if not _RANDOM_LABEL.search(l) and l not in CALLER_LABELS and len(FIXED_LABELS) < 200:
                FIXED_LABELS.add(l)
            if not _RANDOM_LABEL.search(l) and l not in CALLER_LABELS:
                # names numbered by a counter: the numbers that would come next are names a host may well own already
                # (a circuit made earlier, in another process, by the same generator)
                m_ = _re.match(r'^(.*?)(\d+)$', l)
                if m_ and len(NUMBERED) < 600:
                    for dlt in range(1, 60):
                        NUMBERED.add(m_.group(1) + str(int(m_.group(2)) + dlt))
    if basis is not None:
        b = basis.upper() if isinstance(basis, str) else basis.value
        if b == 'AIG':
            bad = [l for l in new_gates if net.gates[l][0] in AIG_FORBIDDEN]
            if bad:
                V('basis', 'basis %r requested but new gate %r is %s' % (basis, bad[0], net.gates[bad[0]][0]))
                return False
    if bound is not None:
        cnt = sum(1 for l in new_gates if net.gates[l][0] not in ('NOT', 'IFF', 'LNOT', 'RNOT', 'LIFF', 'RIFF', 'ALWAYS_TRUE', 'ALWAYS_FALSE', 'INPUT'))
        if cnt > bound[0] + 1e-9:
            V('size_bound', '%d new non-trivial gates exceed the documented bound %s = %.1f' % (cnt, bound[1], bound[0]))
            return False
    if expect_lengths is not None:
        got = [len(o) for o in outputs]
        if got != list(expect_lengths):
            V('result_length', 'result bit counts %r, expected %r' % (got, list(expect_lengths)))
            return False
    rng = rng or random.Random(0)
    prim_groups = [g for g in operands if g and all(l in net.inputs for l in g)]
    iv, mask, ns = sample_inputs(net, rng, prim_groups if len(prim_groups) == len(operands) else None)
    wanted = set(flat_out)
    for g in operands:
        wanted.update(g)
    if weighted:
        wanted.update(l for _, l in weighted[0])
    try:
        vals = refsem.eval_net(net, iv, mask, wanted=list(wanted))
    except (KeyError, RecursionError) as e:
        V('not_evaluable', 'circuit cannot be interpreted: %r' % (e,))
        return False
    if weighted:
        win, wout, distinct = weighted
        if distinct:
            lv = [l for l, _ in wout]
            if len(set(lv)) != len(lv):
                V('levels_not_distinct', 'returned levels %r are not pairwise distinct' % (lv,))
                return False
        lhs = [0] * ns
        for w, l in win:
            for k, v in enumerate(ints_of(vals, [l], ns)):
                if v:
                    lhs[k] += 1 << w
        rhs = [0] * ns
        for w, l in wout:
            for k, v in enumerate(ints_of(vals, [l], ns)):
                if v:
                    rhs[k] += 1 << w
        for k in range(ns):
            if lhs[k] != rhs[k]:
                V('sum_identity', 'sample %d: sum of inputs*2^weight = %d but sum of outputs*2^level = %d' % (k, lhs[k], rhs[k]))
                return False
        return True
    op_ints = [ints_of(vals, g, ns) for g in operands]
    out_ints = [ints_of(vals, o, ns) for o in outputs]
    for k in range(ns):
        a = [oi[k] for oi in op_ints]
        want = fn(*a)
        got = tuple(oi[k] for oi in out_ints)
        if tuple(want) != got:
            V('value', 'operands %r: returned bits decode to %r, expected %r' % (a, got, tuple(want)))
            return False
    return True


# ------------------------------------------------------------------ host circuits

ITER_REG = {}
_KEEP = []


def flavour(rng, seq, ctx=None):
    """The same operand labels as any of the iterables the signature (Iterable[Label]) admits: list, tuple, generator
    expression, iterator, map object.  One-shot flavours are announced through CUR['intended_operands'] by the caller,
    because a monitor must not iterate them."""
    k = rng.choice(['list', 'list', 'list', 'tuple', 'generator', 'iter', 'map'])
    seq = list(seq)
    if k == 'list':
        return seq
    if k == 'tuple':
        return tuple(seq)
    if ctx is not None:
        ctx.count('operands_as_one_shot_iterable')
    if k == 'generator':
        it = (x for x in seq)
    elif k == 'iter':
        it = iter(seq)
    else:
        it = map(lambda x: x, seq)
    ITER_REG[id(it)] = seq
    _KEEP.append(it)      # the object stays alive (so its id cannot be reused) exactly as long as it is registered
    while len(_KEEP) > 64:
        old = _KEEP.pop(0)
        ITER_REG.pop(id(old), None)
    return it


def operand_list(x, pos):
    """Labels of operand number `pos` for the oracle: the argument itself when it can be read again, otherwise what the
    workload announced."""
    if isinstance(x, (list, tuple)):
        return list(x)
    intended = CUR.get('intended_operands')
    if intended is not None and pos < len(intended):
        return list(intended[pos])
    return None


_LIB_STRINGS = None


def library_strings():
    """Module-level string constants of the generation package (what `from ... import *` style code can see): valid
    labels like any other string."""
    global _LIB_STRINGS
    if _LIB_STRINGS is None:
        import sys
        out = set()
        for name, mod in list(sys.modules.items()):
            if name.startswith('cirbo.synthesis.generation') and mod is not None:
                for k, v in list(vars(mod).items()):
                    if isinstance(v, str) and not k.startswith('__') and 0 < len(v) <= 40 and '\n' not in v and ' ' not in v:
                        out.add(v)
        _LIB_STRINGS = sorted(out)
    return _LIB_STRINGS


def make_host(rng, k_inputs=None, n_gates=None):
    """Random host circuit (reference net) whose gates may serve as operand bits."""
    k = k_inputs if k_inputs is not None else rng.randint(2, 8)
    g = n_gates if n_gates is not None else rng.randint(0, 10)
    net = netgen.rand_net(rng, n_in=k, n_g=g, shape=rng.choice(['random', 'wide', 'diamond']),
                          types=['AND', 'OR', 'XOR', 'NOT', 'NAND', 'GT', 'NXOR', 'IFF', 'LEQ', 'NOR', 'LT', 'GEQ', 'LNOT', 'RNOT',
                                 'LIFF', 'RIFF'], max_arity=3,
                          n_out=rng.randint(0, 2), const_operands=False, label_style=rng.choice(['plain', 'digits']))
    lib = library_strings()
    if NUMBERED and rng.random() < 0.3:
        pool_n = sorted(NUMBERED)
        mp = {}
        for l in rng.sample(list(net.gates), min(len(net.gates), rng.randint(1, 4))):
            nl = rng.choice(pool_n)
            if nl not in net.gates and nl not in mp.values():
                mp[l] = nl
        if mp:
            net = netgen.relabel(net, mp)
    if rng.random() < 0.3 and (FIXED_LABELS or lib):
        # a host that happens to use names the generators themselves like to use (with other functions), or the
        # library's own exported string constants (sentinels, prefixes) as labels
        pool = sorted(FIXED_LABELS)
        mp = {}
        for l in rng.sample(list(net.gates), min(len(net.gates), rng.randint(1, 3))):
            nl = rng.choice(lib) if lib and (not pool or rng.random() < 0.4) else rng.choice(pool)
            if nl not in net.gates and nl not in mp.values():
                mp[l] = nl
        if mp:
            net = netgen.relabel(net, mp)
    return net


def pick_bits(rng, net, width, mode):
    """mode: 'inputs' (distinct primary inputs if possible), 'internal', 'mixed', 'repeated'."""
    labels = list(net.gates)
    ins = list(net.inputs)
    inner = [l for l in labels if l not in ins] or labels
    if mode == 'inputs':
        return [rng.choice(ins) for _ in range(width)] if width > len(ins) else rng.sample(ins, width)
    if mode == 'internal':
        return [rng.choice(inner) for _ in range(width)]
    if mode == 'repeated':
        base = [rng.choice(labels) for _ in range(max(1, width // 2))]
        return [rng.choice(base) for _ in range(width)]
    return [rng.choice(labels) for _ in range(width)]


def attach(module_name, fname, pre, post, on_raise=None):
    """Attach at the defining module and rebind the re-exported names."""
    mod = importlib.import_module(module_name)
    ctx = CUR['ctx']

    # the monitors see one-shot iterables (generator / iterator / map arguments) as the label lists the workload
    # registered for them; the function under test gets the real one-shot object
    def _sub(args, kwargs):
        a2 = tuple(ITER_REG.get(id(a), a) if hasattr(a, '__next__') else a for a in args)
        k2 = {k: (ITER_REG.get(id(v), v) if hasattr(v, '__next__') else v) for k, v in kwargs.items()}
        return a2, k2

    def _freeze(a2, k2):
        # list arguments as they were when the call was made (a caller may pass the circuit's own live lists, which
        # grow during the call)
        return (tuple(list(a) if isinstance(a, list) else a for a in a2),
                {k: (list(v) if isinstance(v, list) else v) for k, v in k2.items()})

    def pre2(args, kwargs, _pre=pre):
        a2, k2 = _sub(args, kwargs)
        fa, fk = _freeze(a2, k2)
        return {'__st': _pre(a2, k2), '__args': fa, '__kwargs': fk}

    def post2(st, args, kwargs, result, _post=post):
        return _post(st['__st'], st['__args'], st['__kwargs'], result)

    on_raise2 = None
    if on_raise is not None:
        def on_raise2(st, args, kwargs, exc, _r=on_raise):
            return _r(st['__st'], st['__args'], st['__kwargs'], exc)

    w = monitor.attach(mod, fname, pre=monitor.outer_only(pre2), post=monitor.outer_only(post2),
                       on_raise=on_raise2, counter=ctx.moncounter(fname))
    orig = w.__vt_original__
    for pk in ('cirbo.synthesis.generation.arithmetics', 'cirbo.synthesis.generation', 'cirbo.synthesis.generation.generation',
               'cirbo.synthesis.generation.arithmetics.multiplication', 'cirbo.synthesis.generation.arithmetics.square',
               'cirbo.synthesis.generation.arithmetics.summation', 'cirbo.synthesis.generation.arithmetics.subtraction',
               'cirbo.synthesis.generation.arithmetics.div_mod', 'cirbo.synthesis.generation.arithmetics.sqrt',
               'cirbo.synthesis.generation.arithmetics.equality', 'cirbo.sat.miter'):
        try:
            m = importlib.import_module(pk)
        except Exception:
            continue
        if m is mod:
            continue
        if getattr(m, fname, None) is orig:
            setattr(m, fname, w)
            monitor._installed.append((m, fname, orig))
        # dispatch tables (generate_mul / generate_square)
        for tbl in ('_process_mul', '_process_square'):
            t = getattr(m, tbl, None)
            if isinstance(t, dict):
                for kk, vv in list(t.items()):
                    if vv is orig:
                        t[kk] = w
    # dispatch tables inside the defining module too
    for tbl in ('_process_mul', '_process_square'):
        t = getattr(mod, tbl, None)
        if isinstance(t, dict):
            for kk, vv in list(t.items()):
                if vv is orig:
                    t[kk] = w
    return w


def own_and_edit(circuit, rng):
    """The caller owns what generate_* returned and edits it; later calls must hand out fresh, correct circuits."""
    GENERATED.append(circuit)
    if len(GENERATED) > 300:
        del GENERATED[:100]
    with monitor.suspended():
        netgen.scribble(circuit, rng)


def le(labels, big_endian):
    """Normalise a label list to LSB-first."""
    labels = list(labels)
    return labels[::-1] if big_endian else labels


def add_operand_users(net, operand_lists, rng):
    """Hostile host: give the chosen operand bits pre-existing users of the kinds the generators
    themselves create (AND/XOR/OR/GT... of arity 2..3 mixing bits of different operands, both
    operand orders), so that any 'reuse an existing gate' / 'look at the users' logic is exercised."""
    g = dict(net.gates)
    bits = [l for ol in operand_lists for l in ol]
    if not bits:
        return net
    k = 0
    for _ in range(rng.randint(1, 6)):
        t = rng.choice(['AND', 'AND', 'XOR', 'OR', 'NAND', 'GT', 'LT', 'NXOR', 'LEQ'])
        ar = 2 if t in ('GT', 'LT', 'LEQ') else rng.choice([2, 2, 3, 3, 4])
        ops = []
        for j in range(ar):
            src = rng.choice(operand_lists) if rng.random() < 0.85 else [rng.choice(list(g))]
            ops.append(rng.choice(src))
        lbl = 'pre%d_%d' % (k, rng.randrange(10 ** 5))
        k += 1
        if lbl in g:
            continue
        g[lbl] = (t, tuple(ops))
    return refsem.Net(list(net.inputs), list(net.outputs), g)


def under_construction(c, rng, ctx):
    """Make c a circuit that is still being built: one to three earlier generator calls (any arithmetic family, small
    operands taken from c's inputs or from earlier results) whose result bits nobody has consumed or marked as outputs yet.
    The call under test then sees those results as ordinary pre-existing gates.  Runs with the monitors suspended - the
    earlier calls are context, not what is judged here."""
    from cirbo.synthesis.generation import arithmetics as ar
    results = []
    with monitor.suspended():
        for _ in range(rng.randint(1, 3)):
            pool = list(c.inputs) + [l for r in results for l in r]
            if not pool:
                return results
            a = [rng.choice(pool) for _ in range(rng.randint(1, 3))]
            b = [rng.choice(pool) for _ in range(rng.randint(1, 3))]
            kind = rng.choice(['add_mul', 'add_mul_dadda', 'add_mul_wallace', 'add_mul_alter', 'add_sum_two_numbers',
                               'add_sub_two_numbers', 'add_square', 'add_sum_n_bits'])
            try:
                if kind in ('add_square', 'add_sum_n_bits'):
                    r = getattr(ar, kind)(c, a)
                else:
                    r = getattr(ar, kind)(c, a, b)
            except Exception as e:
                if ctx is not None:
                    ctx.count('under_construction_setup_failed:' + type(e).__name__)
                continue
            results.append(list(r))
            if ctx is not None:
                ctx.count('under_construction:' + kind)
    if ctx is not None and results:
        ctx.count('circuit_under_construction')
    return results


def be_kwargs(be):
    """Keyword arguments for a bit order: callers that want the default order simply leave the argument out - half of the
    little-endian cases do (decided per case: CUR['omit_defaults']).  The monitors read an absent argument as the
    signature's default."""
    if not be and CUR.get('omit_defaults'):
        if CUR.get('ctx') is not None:
            CUR['ctx'].count('optional_argument_omitted')
        return {}
    return {'big_endian': be}
