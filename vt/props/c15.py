"""C15 - evaluation under partial assignments is sound and monotone.

Soundness: post-condition monitor on the three partial evaluators (every gate
reported True/False has that value under every completion, decided on the
reference truth tables).  Monotonicity / totality: offline checker over the
recorded results of all 3^n partial assignments of each circuit."""
from __future__ import annotations

import itertools
import random

from vt import monitor, netgen, refsem

ID = 'C15'
LEVEL = 'exploration'
RULE = ('random DAG netlists (all gate types, all shape classes), ALL 3^n partial assignments (True/False/Undefined '
        'explicit or omitted) for n<=5 through evaluate_circuit (with and without outputs=), evaluate_full_circuit, '
        'evaluate_circuit_outputs; distinct = (structural hash, partial assignment); non-trivial = >=1 input undefined '
        'and >=1 non-input gate defined.  Three-valued operator tables enumerated completely up to arity 4.')
ANCHOR_FILES = ['cirbo/core/circuit/operators.py', 'cirbo/core/circuit/circuit.py']
ASSUMPTIONS = ['vt.refsem truth tables define the value under each completion']
REQUIRED = {'mon:evaluate_circuit.checked': 500, 'mon:evaluate_full_circuit.checked': 500,
            'mon:evaluate_circuit_outputs.checked': 500, 'monotone_pairs': 1000, 'optable_entries': 100,
            'total_assignments': 100, 'deep_circuits': 2}

CUR = {'ctx': None, 'case': None, 'log': None}
_cache = {}


def shards(tier, seed):
    per = 400 if tier == 'quick' else 5000
    budget = 40 if tier == 'quick' else 500
    out = [{'kind': 'random', 'count': per, 'budget_s': budget, 'max_g': 12 if tier == 'quick' else 24} for _ in range(15)]
    out.append({'kind': 'tables', 'budget_s': budget})
    out.append({'kind': 'deep', 'count': 3 if tier == 'quick' else 30, 'budget_s': budget,
                'depths': [1200, 2500, 4000] if tier == 'quick' else [900, 1000, 1100, 1500, 3000, 6000]})
    _out = out
    if tier == 'thorough':
        _out.append({'kind': 'suite', 'select': ['tests'], 'budget_s': 900})
    return _out


def _ref(circuit):
    if len(circuit.inputs) > 10 or circuit.size * (1 << len(circuit.inputs)) > 400 * 1024:
        raise KeyError('too large for the exhaustive oracle')
    net = refsem.net_of(circuit)
    key = (tuple(net.inputs), tuple(net.outputs), tuple(sorted(net.gates.items())))
    r = _cache.get(key)
    if r is None:
        if len(_cache) > 16:
            _cache.clear()
        for l, (t, ops) in net.gates.items():
            for o in ops:
                if o not in net.gates:
                    raise KeyError(o)
        vals, ns = refsem.truth_tables(net)
        cols, mask, _ = refsem.canonical_columns(len(net.inputs))
        r = (net, vals, ns, cols, mask)
        _cache[key] = r
    return r


def _partial(self, assignment):
    """Return compat mask description (dict input->True/False/None) or None when out of C15's domain."""
    from cirbo.core.circuit.operators import Undefined
    ins = self.inputs
    if set(assignment.keys()) - set(ins):
        return None
    p = {}
    for i in ins:
        v = assignment.get(i, Undefined)
        if v is True or v is False:
            p[i] = v
        elif v == Undefined:
            p[i] = None
        else:
            return None
    return p


def _check_sound(api, self, assignment, result, gates_required_defined_if_total):
    from cirbo.core.circuit.operators import Undefined
    ctx = CUR['ctx']
    name = api.split('.')[-1]
    p = _partial(self, assignment)
    if p is None:
        ctx.mon(name, 'skipped_domain')
        return
    try:
        net, vals, ns, cols, mask = _ref(self)
    except (KeyError, RecursionError):
        ctx.mon(name, 'skipped_malformed')
        return
    if len(net.inputs) > 10:
        ctx.mon(name, 'skipped_large')
        return
    compat = mask
    for i, lbl in enumerate(net.inputs):
        if p[lbl] is True:
            compat &= cols[i]
        elif p[lbl] is False:
            compat &= ~cols[i] & mask
    total = all(v is not None for v in p.values())
    ctx.mon(name)
    for g, v in result.items():
        if g not in net.gates:
            continue
        if v is True:
            if vals[g] & compat != compat:
                ctx.violation(api, 'wrong_result', 'unsound_defined_value',
                              'gate %r reported True under %r but some completion gives False' % (g, p), CUR['case'])
                return
        elif v is False:
            if vals[g] & compat != 0:
                ctx.violation(api, 'wrong_result', 'unsound_defined_value',
                              'gate %r reported False under %r but some completion gives True' % (g, p), CUR['case'])
                return
        elif v == Undefined:
            if total and g in gates_required_defined_if_total(net):
                ctx.violation(api, 'wrong_result', 'undefined_under_total',
                              'gate %r Undefined under total assignment %r' % (g, p), CUR['case'])
                return
        else:
            ctx.violation(api, 'wrong_result', 'not_a_gate_state', 'gate %r has value %r' % (g, v), CUR['case'])
            return
    if total:
        ctx.count('total_assignments')
    if CUR['log'] is not None:
        CUR['log'].append((api, tuple(sorted((k, v) for k, v in p.items())), dict(result)))


def _cone(net, roots):
    seen = set()
    st = list(roots)
    while st:
        g = st.pop()
        if g in seen:
            continue
        seen.add(g)
        st.extend(net.gates[g][1])
    return seen


def post_evaluate_circuit(state, args, kwargs, result):
    self = args[0]
    assignment = args[1] if len(args) > 1 else kwargs['assignment']
    outs = kwargs.get('outputs')
    _check_sound('Circuit.evaluate_circuit' if outs is None else 'Circuit.evaluate_circuit',
                 self, assignment, result, lambda net: _cone(net, net.outputs if outs is None else outs))


def post_evaluate_full(state, args, kwargs, result):
    self = args[0]
    assignment = args[1] if len(args) > 1 else kwargs['assignment']
    _check_sound('Circuit.evaluate_full_circuit', self, assignment, result, lambda net: set(net.gates))


def post_evaluate_outputs(state, args, kwargs, result):
    self = args[0]
    assignment = args[1] if len(args) > 1 else kwargs['assignment']
    _check_sound('Circuit.evaluate_circuit_outputs', self, assignment, result, lambda net: set(net.outputs))


def install(ctx):
    from cirbo.core.circuit import Circuit
    CUR['ctx'] = ctx
    monitor.attach(Circuit, 'evaluate_circuit', post=post_evaluate_circuit, counter=ctx.moncounter('evaluate_circuit'))
    monitor.attach(Circuit, 'evaluate_full_circuit', post=post_evaluate_full, counter=ctx.moncounter('evaluate_full_circuit'))
    monitor.attach(Circuit, 'evaluate_circuit_outputs', post=post_evaluate_outputs,
                   counter=ctx.moncounter('evaluate_circuit_outputs'))


def check_case(case, ctx):
    from cirbo.core.circuit.operators import Undefined
    CUR['case'] = case
    if case.get('kind') == 'deep':
        net = netgen.deep_net(random.Random(case['dseed']), case['depth'], n_in=case.get('n_in', 3))
        ctx.count('deep_circuits')
    else:
        net = netgen.from_description(case['net'])
    rng = random.Random(case.get('rseed', 0))
    try:
        c = netgen.build(net, rng=rng, shuffle_storage=case.get('shuffle', False))
    except Exception as e:
        ctx.count('build_failed:' + type(e).__name__)
        return
    if case.get('edited'):
        # the object is queried, then edited through public calls, then queried again (below)
        try:
            for _ in range(3):
                a0 = {}
                for lbl in net.inputs:
                    v = rng.choice((False, True, None, Undefined))
                    if v is not None:
                        a0[lbl] = v
                c.evaluate_circuit(a0)
                c.evaluate_full_circuit(a0)
                c.evaluate_circuit_outputs(a0)
            ctx.count('queried_before_edit')
        except Exception as e:
            ctx.unexpected('partial evaluators', e, case)
            return
        with monitor.suspended():
            case = dict(case, edits_applied=netgen.random_edits(c, rng))
            CUR['case'] = case
            net = refsem.net_of(c)
        ctx.count('edited_circuits')
    n = len(net.inputs)
    sh = refsem.structural_hash(net)
    results = {'Circuit.evaluate_circuit': {}, 'Circuit.evaluate_full_circuit': {}, 'Circuit.evaluate_circuit_outputs': {}}
    space = list(itertools.product((False, True, None), repeat=n)) if n <= 5 else \
        [tuple(rng.choice((False, True, None)) for _ in range(n)) for _ in range(200)]
    sub = rng.sample(list(net.gates), min(len(net.gates), 2)) if net.gates else []
    for p in space:
        a = {}
        for lbl, v in zip(net.inputs, p):
            if v is None:
                if rng.random() < 0.5:
                    a[lbl] = Undefined
            else:
                a[lbl] = v
        CUR['log'] = []
        try:
            r1 = c.evaluate_circuit(a)
            r2 = c.evaluate_full_circuit(a)
            r3 = c.evaluate_circuit_outputs(a)
            if sub:
                c.evaluate_circuit(a, outputs=sub)
        except Exception as e:
            ctx.unexpected('partial evaluators', e, dict(case, assignment=repr(p)))
            return
        results['Circuit.evaluate_circuit'][p] = r1
        results['Circuit.evaluate_full_circuit'][p] = r2
        results['Circuit.evaluate_circuit_outputs'][p] = r3
        n_undef = sum(1 for v in p if v is None)
        n_def_gates = sum(1 for g, v in r2.items() if net.gates.get(g, ('INPUT',))[0] != 'INPUT' and (v is True or v is False))
        ctx.case('%s:%r' % (sh, p), n_undef >= 1 and n_def_gates >= 1, cls='shape:' + case.get('shape', '?'),
                 sample={'net': case.get('net', {'deep_chain_depth': case.get('depth')}), 'partial_assignment': [None if v is None else bool(v) for v in p],
                         'defined_gates': n_def_gates} if (n_undef >= 1 and n_def_gates >= 2) else None)
    CUR['log'] = None
    # offline monotonicity checker over the recorded histories
    if n <= 5:
        for api, res in results.items():
            for p, r in res.items():
                for i in range(n):
                    if p[i] is not None:
                        continue
                    for v in (False, True):
                        q = p[:i] + (v,) + p[i + 1:]
                        rq = res[q]
                        ctx.count('monotone_pairs')
                        for g, gv in r.items():
                            if gv is True or gv is False:
                                if rq.get(g) is not gv:
                                    ctx.violation(api, 'wrong_result', 'not_monotone',
                                                  'gate %r: %r under %r but %r after also defining input %d=%r' % (
                                                      g, gv, p, rq.get(g), i, v), case)
                                    return


PARITY_MIX = ['XOR', 'NXOR', 'XOR', 'NXOR', 'XOR', 'AND', 'OR', 'NAND', 'NOR', 'GT', 'NOT']


def gen_case(rng, spec):
    if spec.get('kind') == 'deep':
        return {'kind': 'deep', 'shape': 'deep', 'depth': rng.choice(spec['depths']), 'dseed': rng.getrandbits(32),
                'n_in': rng.randint(2, 3), 'rseed': rng.getrandbits(32), 'shuffle': False, 'edited': False}
    shape = rng.choice(netgen.SHAPES)
    # a quarter of the circuits mix the gates through which an undefined operand always shows (parity, inverters) with
    # the gates that can absorb it (AND/OR family): where short cuts of a three-valued evaluator meet
    types = PARITY_MIX if rng.random() < 0.25 else None
    net = netgen.rand_net(rng, shape=shape, max_in=5, min_in=0 if rng.random() < 0.06 else 1, max_g=spec.get('max_g', 12), max_arity=4,
                          types=types)
    return {'kind': 'random', 'shape': shape, 'net': netgen.describe(net), 'rseed': rng.getrandbits(32),
            'shuffle': rng.random() < 0.2, 'edited': rng.random() < 0.3}


def run_tables(ctx):
    """Three-valued operator tables directly: sound, monotone, total => defined."""
    from cirbo.core.circuit.operators import Undefined
    gt = netgen.gate_type_by_name()
    case = {'kind': 'tables'}
    CUR['case'] = case
    for t in netgen.ALL_GATE_TYPES:
        if t in refsem.NARY:
            arities = [2, 3, 4]
        elif t in refsem.BINARY_ONLY:
            arities = [2]
        elif t in refsem.UNARY:
            arities = [1]
        else:
            arities = [0, 1, 2]
        for k in arities:
            table = {}
            for vals in itertools.product((False, True, None), repeat=k):
                args = [Undefined if v is None else v for v in vals]
                try:
                    r = gt[t].operator(*args)
                except Exception as e:
                    ctx.violation('operators.' + t, 'exception', type(e).__name__, '%s%r raised %r' % (t, vals, e), case)
                    continue
                table[vals] = r
                ctx.count('optable_entries')
                undef_idx = [i for i, v in enumerate(vals) if v is None]
                comps = []
                for fill in itertools.product((False, True), repeat=len(undef_idx)):
                    vv = list(vals)
                    for i, f in zip(undef_idx, fill):
                        vv[i] = f
                    comps.append(refsem.op_scalar(t, vv))
                ctx.case('optable:%s:%r' % (t, vals), bool(undef_idx))
                if r is True or r is False:
                    if any(c is not r for c in comps):
                        ctx.violation('operators.' + t, 'wrong_result', 'unsound_defined_value',
                                      '%s%r = %r but completions give %r' % (t, vals, r, comps), case)
                elif r == Undefined:
                    if not undef_idx:
                        ctx.violation('operators.' + t, 'wrong_result', 'undefined_under_total',
                                      '%s%r is Undefined on a total argument tuple' % (t, vals), case)
                else:
                    ctx.violation('operators.' + t, 'wrong_result', 'not_a_gate_state', '%s%r = %r' % (t, vals, r), case)
            for vals, r in table.items():
                if r is True or r is False:
                    for i, v in enumerate(vals):
                        if v is None:
                            for f in (False, True):
                                q = vals[:i] + (f,) + vals[i + 1:]
                                if q in table and table[q] is not r:
                                    ctx.violation('operators.' + t, 'wrong_result', 'not_monotone',
                                                  '%s%r = %r but %s%r = %r' % (t, vals, r, t, q, table[q]), case)
    ctx.exhaustive_spaces['three_valued_operator_tables_arity<=4'] = True


def run_shard(spec, ctx):
    install(ctx)
    if spec.get('kind') == 'suite':
        from vt import suite
        import sys
        suite.run(sys.modules[__name__], ctx, select=spec.get('select'))
        return
    if spec['kind'] == 'tables':
        run_tables(ctx)
        return
    for i in range(spec['count']):
        if ctx.out_of_time():
            ctx.count('stopped_on_budget')
            break
        check_case(gen_case(ctx.rng, spec), ctx)


def replay(case, ctx):
    install(ctx)
    if case.get('kind') == 'tables':
        run_tables(ctx)
    else:
        check_case(case, ctx)
