"""C01 - evaluation equals the denotational semantics of the gate network.

Monitors: post-conditions on the seven evaluation entry points of the real
Circuit class, deciding against vt.refsem on the same netlist; metamorphic twin
check; exhaustive cross-module gate-table comparison."""
from __future__ import annotations

import itertools
import json

from vt import monitor, netgen, refsem

ID = 'C01'
LEVEL = 'exploration'
RULE = ('random DAG netlists over all 19 gate types (shape classes chain/wide/diamond/unary/dups/consts/nary, '
        'constants with operands, repeated operands/outputs, dead gates, unused inputs, shuffled storage order), '
        'all 2^n assignments (n<=6) through all seven evaluation entry points, plus an isomorphic relabelled twin; '
        'distinct = relabel-invariant structural hash; non-trivial = some output cone contains a non-input gate and '
        'some output is not constant.  The cross-module gate tables are enumerated completely (exhaustive sub-space).')
ANCHOR_FILES = ['cirbo/core/circuit/operators.py', 'cirbo/core/circuit/gate.py', 'cirbo/core/circuit/circuit.py',
                'cirbo/synthesis/circuit_search.py', 'cirbo/synthesis/generation/arithmetics/_utils.py',
                'cirbo/minimization/subcircuit.py', 'cirbo/sat/cnf/tseytin.py', 'cirbo/core/circuit/converters.py']
ASSUMPTIONS = ['vt.refsem (independent 40-line reference semantics) is the definition of each gate type',
               'circuits are built through the public API from generated reference netlists']
REQUIRED = {'mon:evaluate.checked': 50, 'mon:evaluate_at.checked': 50, 'mon:evaluate_circuit.checked': 50,
            'mon:evaluate_circuit_outputs.checked': 50, 'mon:evaluate_full_circuit.checked': 50,
            'mon:get_truth_table.checked': 20, 'mon:get_gates_truth_table.checked': 20,
            'tables:operators': 1, 'tables:synthesis': 1, 'tables:arith': 1, 'tables:pattern': 1,
            'tables:tseytin': 1, 'tables:converters': 1, 'tables:format_parse': 1, 'tables:fix_gate_type': 16, 'twin_checked': 20,
            'edited_circuits': 20, 'library_circuits': 50, 'requeried_after_edit': 10, 'deep_circuits': 2}
EXHAUSTIVE_WHEN = {}

OPS16_NAMES = ['ALWAYS_FALSE', 'ALWAYS_TRUE', 'LNOT', 'LIFF', 'RNOT', 'RIFF', 'OR', 'NOR', 'AND', 'NAND', 'XOR', 'NXOR', 'GT', 'LT',
               'GEQ', 'LEQ']
CUR = {'ctx': None, 'case': None}
_cache = {}


def shards(tier, seed):
    n = 16
    per = 130 if tier == 'quick' else 4000
    budget = 40 if tier == 'quick' else 500
    out = [{'kind': 'random', 'count': per, 'budget_s': budget, 'max_g': 14 if tier == 'quick' else 40,
            'max_arity': 4 if tier == 'quick' else 6} for _ in range(n - 1)]
    out.append({'kind': 'tables', 'budget_s': budget})
    out[0] = {'kind': 'library', 'count': 60 if tier == 'quick' else 1500, 'budget_s': budget}
    out.append({'kind': 'deep', 'count': 3 if tier == 'quick' else 30, 'budget_s': budget,
                'depths': netgen.DEEP_QUICK if tier == 'quick' else netgen.DEEP_THOROUGH})
    _out = out
    if tier == 'thorough':
        _out.append({'kind': 'suite', 'select': ['tests'], 'budget_s': 900})
    return _out


# ------------------------------------------------------------------ oracle helpers

class TooLarge(Exception):
    pass


def _ref(circuit):
    if len(circuit.inputs) > 12 or circuit.size * (1 << len(circuit.inputs)) > 400 * 4096:
        raise TooLarge()
    net = refsem.net_of(circuit)
    key = (tuple(net.inputs), tuple(net.outputs), tuple(sorted(net.gates.items())))
    r = _cache.get(key)
    if r is None:
        if len(_cache) > 64:
            _cache.clear()
        for l, (t, ops) in net.gates.items():
            for o in ops:
                if o not in net.gates:
                    raise KeyError(o)
        vals, ns = refsem.truth_tables(net)
        r = (net, vals, ns)
        _cache[key] = r
    return r


def _index_of(net, assignment_by_label):
    k = 0
    for lbl in net.inputs:
        k = (k << 1) | (1 if assignment_by_label[lbl] else 0)
    return k


def _intended(circuit, assignment):
    """The assignment as the caller wrote it.  The workload only ever writes input keys into the dict objects it passes
    (and says so through CUR['inputs_only']); any other key found in such a dict was put there by the library and is not
    part of the request."""
    if CUR.get('inputs_only'):
        ins = set(circuit.inputs)
        return {k: v for k, v in assignment.items() if k in ins}
    return assignment


def _total_input_assignment(circuit, assignment):
    """True iff assignment defines exactly the inputs with booleans (C01's domain)."""
    ins = circuit.inputs
    if set(assignment.keys()) - set(ins):
        return False
    for i in ins:
        v = assignment.get(i, None)
        if v is not True and v is not False:
            return False
    return True


def _viol(api, disc, msg):
    ctx = CUR['ctx']
    ctx.violation(api, 'wrong_result', disc, msg, CUR['case'])


def _safe_ref(self, name):
    ctx = CUR['ctx']
    try:
        return _ref(self)
    except TooLarge:
        ctx.mon(name, 'skipped_large')
        return None
    except (KeyError, RecursionError):
        ctx.mon(name, 'skipped_malformed')
        return None


# ------------------------------------------------------------------ post-conditions

def _plain(inputs, n):
    """First n input values with the library's three-valued Undefined mapped to None (its == and bool() raise)."""
    out = []
    for i in range(n):
        v = inputs[i]
        out.append(v if isinstance(v, (bool, int)) else None)
    return out


def post_evaluate(state, args, kwargs, result):
    self, inputs = args[0], (args[1] if len(args) > 1 else kwargs['inputs'])
    ctx = CUR['ctx']
    r = _safe_ref(self, 'evaluate')
    if r is None:
        return
    net, vals, ns = r
    if len(inputs) < len(net.inputs):
        ctx.mon('evaluate', 'skipped_short')
        return
    if not all(v is True or v is False or v == 0 or v == 1 for v in _plain(inputs, len(net.inputs))):
        ctx.mon('evaluate', 'skipped_not_total')   # Undefined inputs: partial evaluation is C15's subject
        return
    k = 0
    for i in range(len(net.inputs)):
        k = (k << 1) | (1 if inputs[i] else 0)
    want = [bool((vals[o] >> k) & 1) for o in net.outputs]
    ctx.mon('evaluate')
    if list(result) != want:   # 1 == True: integer inputs may be echoed by outputs that are inputs
        _viol('Circuit.evaluate', 'value', 'evaluate(%r) = %r, reference %r' % (list(inputs), result, want))


def post_evaluate_at(state, args, kwargs, result):
    self = args[0]
    inputs = args[1] if len(args) > 1 else kwargs['inputs']
    idx = args[2] if len(args) > 2 else kwargs['output_index']
    ctx = CUR['ctx']
    r = _safe_ref(self, 'evaluate_at')
    if r is None:
        return
    net, vals, ns = r
    if len(inputs) < len(net.inputs) or not all(v is True or v is False or v == 0 or v == 1
                                                for v in _plain(inputs, len(net.inputs))):
        ctx.mon('evaluate_at', 'skipped_not_total')
        return
    k = 0
    for i in range(len(net.inputs)):
        k = (k << 1) | (1 if inputs[i] else 0)
    want = bool((vals[net.outputs[idx]] >> k) & 1)
    ctx.mon('evaluate_at')
    if not (result == want):
        _viol('Circuit.evaluate_at', 'value', 'evaluate_at(%r, %d) = %r, reference %r' % (list(inputs), idx, result, want))


def _cone(net, roots):
    seen = set()
    st = list(roots)
    while st:
        g = st.pop()
        if g in seen:
            continue
        seen.add(g)
        st.extend(net.gates[g][1])
    return seen


def post_evaluate_circuit(state, args, kwargs, result):
    self = args[0]
    assignment = _intended(self, args[1] if len(args) > 1 else kwargs['assignment'])
    outs = kwargs.get('outputs')
    ctx = CUR['ctx']
    if not _total_input_assignment(self, assignment):
        ctx.mon('evaluate_circuit', 'skipped_partial')
        return
    r = _safe_ref(self, 'evaluate_circuit')
    if r is None:
        return
    net, vals, ns = r
    k = _index_of(net, assignment)
    roots = list(net.outputs) if outs is None else list(outs)
    cone = _cone(net, roots)
    ctx.mon('evaluate_circuit')
    from cirbo.core.circuit.operators import Undefined
    for g in net.gates:
        got = result.get(g, 'MISSING')
        want = bool((vals[g] >> k) & 1)
        if g in cone:
            if not (got == want):
                _viol('Circuit.evaluate_circuit', 'cone_value',
                      'gate %r in requested cone: got %r, reference %r (assignment %r, outputs=%r)' % (g, got, want, assignment, outs))
                return
        else:
            if not (got == want or got == Undefined):
                _viol('Circuit.evaluate_circuit', 'off_cone_value',
                      'gate %r outside cone: got %r, reference %r' % (g, got, want))
                return


def post_evaluate_circuit_outputs(state, args, kwargs, result):
    self = args[0]
    assignment = _intended(self, args[1] if len(args) > 1 else kwargs['assignment'])
    ctx = CUR['ctx']
    if not _total_input_assignment(self, assignment):
        ctx.mon('evaluate_circuit_outputs', 'skipped_partial')
        return
    r = _safe_ref(self, 'evaluate_circuit_outputs')
    if r is None:
        return
    net, vals, ns = r
    k = _index_of(net, assignment)
    ctx.mon('evaluate_circuit_outputs')
    want = {o: bool((vals[o] >> k) & 1) for o in net.outputs}
    if dict(result) != want:
        _viol('Circuit.evaluate_circuit_outputs', 'value', 'got %r, reference %r (assignment %r)' % (result, want, assignment))


def post_evaluate_full_circuit(state, args, kwargs, result):
    self = args[0]
    assignment = _intended(self, args[1] if len(args) > 1 else kwargs['assignment'])
    ctx = CUR['ctx']
    if not _total_input_assignment(self, assignment):
        ctx.mon('evaluate_full_circuit', 'skipped_partial')
        return
    r = _safe_ref(self, 'evaluate_full_circuit')
    if r is None:
        return
    net, vals, ns = r
    k = _index_of(net, assignment)
    ctx.mon('evaluate_full_circuit')
    for g in net.gates:
        want = bool((vals[g] >> k) & 1)
        got = result.get(g, 'MISSING')
        if not (got == want):
            _viol('Circuit.evaluate_full_circuit', 'value',
                  'gate %r: got %r, reference %r (assignment %r)' % (g, got, want, assignment))
            return


def post_get_truth_table(state, args, kwargs, result):
    self = args[0]
    ctx = CUR['ctx']
    r = _safe_ref(self, 'get_truth_table')
    if r is None:
        return
    net, vals, ns = r
    want = [[bool((vals[o] >> k) & 1) for k in range(ns)] for o in net.outputs]
    ctx.mon('get_truth_table')
    if [list(row) for row in result] != want:
        _viol('Circuit.get_truth_table', 'value', 'got %r, reference %r' % (result, want))


def post_get_gates_truth_table(state, args, kwargs, result):
    self = args[0]
    ctx = CUR['ctx']
    r = _safe_ref(self, 'get_gates_truth_table')
    if r is None:
        return
    net, vals, ns = r
    ctx.mon('get_gates_truth_table')
    for g in net.gates:
        want = [bool((vals[g] >> k) & 1) for k in range(ns)]
        got = result.get(g) if hasattr(result, 'get') else None
        if got is None or list(got) != want:
            _viol('Circuit.get_gates_truth_table', 'value', 'gate %r: got %r, reference %r' % (g, got, want))
            return


def install(ctx):
    from cirbo.core.circuit import Circuit
    CUR['ctx'] = ctx
    monitor.attach(Circuit, 'evaluate', post=post_evaluate, counter=ctx.moncounter('evaluate'))
    monitor.attach(Circuit, 'evaluate_at', post=post_evaluate_at, counter=ctx.moncounter('evaluate_at'))
    monitor.attach(Circuit, 'evaluate_circuit', post=post_evaluate_circuit, counter=ctx.moncounter('evaluate_circuit'))
    monitor.attach(Circuit, 'evaluate_circuit_outputs', post=post_evaluate_circuit_outputs,
                   counter=ctx.moncounter('evaluate_circuit_outputs'))
    monitor.attach(Circuit, 'evaluate_full_circuit', post=post_evaluate_full_circuit,
                   counter=ctx.moncounter('evaluate_full_circuit'))
    monitor.attach(Circuit, 'get_truth_table', post=post_get_truth_table, counter=ctx.moncounter('get_truth_table'))
    monitor.attach(Circuit, 'get_gates_truth_table', post=post_get_gates_truth_table,
                   counter=ctx.moncounter('get_gates_truth_table'))


# ------------------------------------------------------------------ workload

def drive(circuit, net, ctx, rng, exhaustive=True):
    """Call every evaluation entry point on the real circuit (monitors decide)."""
    n = len(net.inputs)
    if n <= 6 and exhaustive:
        assigns = list(itertools.product((False, True), repeat=n))
    else:
        assigns = [tuple(rng.random() < 0.5 for _ in range(n)) for _ in range(48)]
        assigns += [tuple([False] * n), tuple([True] * n)]
    no = len(net.outputs)
    results = {}
    # half of the time one assignment dict object is kept by the caller and updated in place between calls (the usual way
    # to sweep inputs); the callee must treat it as read-only input
    reuse = rng.random() < 0.5
    shared = {}
    CUR['inputs_only'] = True
    if reuse:
        ctx.count('assignment_dict_reused')
    for a in assigns:
        if reuse:
            shared.update(zip(net.inputs, a))
            d = shared
        else:
            d = dict(zip(net.inputs, a))
        if rng.random() < 0.15:
            # an evaluation request the library must refuse, caught by the caller, who then goes on evaluating
            try:
                kind = rng.choice(['unknown_output', 'illegal_state', 'short_input'])
                if kind == 'unknown_output':
                    circuit.evaluate_circuit(dict(d), outputs=list(net.outputs[:1]) + ['__no_such_gate__'])
                elif kind == 'illegal_state' and net.inputs:
                    bad = dict(d)
                    bad[net.inputs[0]] = None
                    circuit.evaluate_circuit(bad)
                elif net.inputs:
                    circuit.evaluate(list(a)[:-1])
                ctx.count('refusable_evaluation_accepted')
            except Exception:
                ctx.count('refused_evaluation_then_continue')
        r = circuit.evaluate(list(a))
        results[a] = r
        if no:
            circuit.evaluate_at(list(a), rng.randrange(no))
        circuit.evaluate_circuit(d)
        if circuit.size:
            sub = rng.sample(list(net.gates), min(len(net.gates), rng.randint(1, 2)))
            circuit.evaluate_circuit(d, outputs=sub)
        circuit.evaluate_circuit_outputs(d)
        circuit.evaluate_full_circuit(d)
    CUR['inputs_only'] = False
    if n <= 6:
        circuit.get_truth_table()
        circuit.get_gates_truth_table()
    return results


def ctx_count(name):
    if CUR.get('ctx') is not None:
        CUR['ctx'].count(name)


def check_case(case, ctx):
    import random
    CUR['case'] = case
    CUR['inputs_only'] = False
    net = netgen.from_description(case['net'])
    rng = random.Random(case.get('rseed', 0))
    try:
        c = netgen.build(net, rng=rng, shuffle_storage=case.get('shuffle', False))
    except Exception as e:
        ctx.count('build_failed:' + type(e).__name__)
        return
    before = len(ctx.violations)
    try:
        res = drive(c, net, ctx, rng)
    except Exception as e:
        ctx.unexpected('evaluation entry points', e, case)
        return
    # metamorphic twin: labels, insertion order, duplicated outputs must not matter
    tnet, mp = netgen.twin(net, rng)
    if tnet.outputs and rng.random() < 0.5:
        tnet.outputs = tnet.outputs + [tnet.outputs[0]]
    try:
        tc = netgen.build(tnet, rng=rng)
        CUR['case'] = dict(case, twin=netgen.describe(tnet))
        tres = drive(tc, tnet, ctx, rng)
        no = len(net.outputs)
        for a, r in res.items():
            if a in tres and list(tres[a])[:no] != list(r):
                ctx.violation('Circuit.evaluate', 'wrong_result', 'twin_disagrees',
                              'isomorphic twin evaluates differently at %r: %r vs %r' % (a, r, tres[a]), CUR['case'])
                break
        ctx.count('twin_checked')
    except Exception as e:
        ctx.unexpected('evaluation entry points (twin)', e, CUR['case'])
    CUR['case'] = case
    # the same through a circuit that was *reached by a mutation history* (public edits keep it well formed):
    # stale-but-empty users lists, moved storage order, converted gates, retyped inputs
    if case.get('edits', True):
        try:
            with monitor.suspended():
                # half of the time the object that was just queried is edited and queried again (answers must follow
                # the object's current state), otherwise a fresh object
                if rng.random() < 0.5:
                    ec = c
                    ctx.count('requeried_after_edit')
                else:
                    ec = netgen.build(net, rng=rng)
                edits = netgen.random_edits(ec, rng)
                enet = refsem.net_of(ec)
            CUR['case'] = dict(case, edits_applied=edits)
            drive(ec, enet, ctx, rng)
            ctx.count('edited_circuits')
            for e in edits:
                ctx.count('edit:' + str(e[0]))
        except Exception as e:
            ctx.unexpected('evaluation entry points (edited circuit)', e, CUR['case'])
        CUR['case'] = case
    # non-triviality
    outs, ns = refsem.output_ints(net)
    full = (1 << ns) - 1
    nontrivial = any(net.gates[o][0] != 'INPUT' for o in net.outputs) and any(v not in (0, full) for v in outs)
    ctx.case(refsem.structural_hash(net), nontrivial, sample=case['net'] if nontrivial else None,
             cls='shape:' + case.get('shape', '?'))
    for l, (t, ops) in net.gates.items():
        if t != 'INPUT':
            ctx.count('gate:%s/%d' % (t, len(ops)))
    if len(ctx.violations) > before:
        ctx.count('cases_with_violation')


def gen_case(rng, spec):
    if spec.get('kind') == 'deep':
        ctx_count('deep_circuits')
        return {'kind': 'random', 'shape': 'deep', 'net': netgen.deep_description(rng, spec['depths']),
                'rseed': rng.getrandbits(32), 'shuffle': False}
    shape = rng.choice(netgen.SHAPES)
    net = netgen.rand_net(rng, shape=shape, max_in=6, min_in=0 if rng.random() < 0.05 else 1, max_g=spec.get('max_g', 14), max_arity=spec.get('max_arity', 4),
                          label_style=rng.choice(['plain', 'plain', 'digits', 'at', 'keyword', 'derived', 'odd']), p_wide=0.05)
    return {'kind': 'random', 'shape': shape, 'net': netgen.describe(net), 'rseed': rng.getrandbits(32),
            'shuffle': rng.random() < 0.3}


def run_library(spec, ctx):
    """Circuits made by the library itself (arithmetic generators, database entries, exact synthesis,
    simplification results, compositions) through all evaluation entry points."""
    import random
    from cirbo.synthesis.generation import arithmetics as ar
    from cirbo.synthesis import generation as gn
    rng = ctx.rng
    makers = [
        lambda: ar.generate_sum_n_bits(rng.randint(1, 6), basis=rng.choice(['XAIG', 'AIG'])),
        lambda: ar.generate_sum_weighted_bits_efficient([rng.randint(0, 3) for _ in range(rng.randint(1, 6))]),
        lambda: ar.generate_mul(rng.randint(1, 3), rng.randint(1, 3), type=rng.choice(list(ar.MulMode))),
        lambda: ar.generate_square(rng.randint(1, 5), type=rng.choice(list(ar.SquareMode))),
        lambda: ar.generate_sub_two_numbers(rng.randint(1, 3), rng.randint(1, 3)),
        lambda: ar.generate_div_mod(rng.randint(1, 3)),
        lambda: ar.generate_sqrt(rng.randint(1, 6)),
        lambda: ar.generate_equal(rng.randint(1, 5), rng.randint(0, 40)),
        lambda: gn.generate_plus_one(rng.randint(1, 5), rng.randint(1, 6), big_endian=rng.random() < 0.5),
        lambda: gn.generate_pairwise_if_then_else(rng.randint(1, 2)),
        lambda: gn.generate_pairwise_xor(rng.randint(1, 3)),
    ]
    n = 0
    for i in range(spec['count']):
        if ctx.out_of_time():
            ctx.count('stopped_on_budget')
            break
        k = rng.randrange(len(makers))
        case = {'kind': 'library', 'maker': k, 'i': i}
        CUR['case'] = case
        try:
            with monitor.suspended():
                c = makers[k]()
                if rng.random() < 0.3:
                    c.into_bench()
                if rng.random() < 0.3:
                    from cirbo.minimization.simplification import cleanup
                    c = cleanup(c, use_heavy=rng.random() < 0.5)
                net = refsem.net_of(c)
            case['net'] = netgen.describe(net)
            drive(c, net, ctx, rng)
            ctx.count('library_circuits')
            ctx.case('lib:' + refsem.structural_hash(net), True, cls='library:%d' % k)
        except Exception as e:
            ctx.unexpected('evaluation entry points (library-made circuit)', e, case)
    # database entries and synthesis results
    try:
        from cirbo.circuits_db.db import CircuitsDatabase
        from cirbo.circuits_db import data_utils
        with monitor.suspended():
            db = CircuitsDatabase(data_utils.DEFAULT_XAIG_DB_PATH)
            db.open()
            from vt.props.c17 import read_keys, db_path
            keys = rng.sample(sorted(read_keys(db_path('xaig'))), 150)
        for key in keys:
            with monitor.suspended():
                c = db.get_by_label(key)
                net = refsem.net_of(c)
            CUR['case'] = {'kind': 'library', 'db_key': key, 'net': netgen.describe(net)}
            drive(c, net, ctx, rng)
            ctx.count('library_circuits')
            ctx.case('db:' + key, True, cls='library:db')
    except Exception as e:
        ctx.unexpected('evaluation entry points (database circuit)', e, CUR['case'])


def run_shard(spec, ctx):
    install(ctx)
    if spec.get('kind') == 'suite':
        from vt import suite
        import sys
        suite.run(sys.modules[__name__], ctx, select=spec.get('select'))
        return
    if spec['kind'] == 'library':
        run_library(spec, ctx)
        return
    if spec['kind'] == 'tables':
        run_tables(ctx)
        # a few library-made circuits as well
        return
    for i in range(spec['count']):
        if ctx.out_of_time():
            ctx.count('stopped_on_budget')
            break
        check_case(gen_case(ctx.rng, spec), ctx)


def replay(case, ctx):
    install(ctx)
    if case.get('kind') == 'tables':
        run_tables(ctx)
    else:
        check_case(case, ctx)


# ------------------------------------------------------------------ cross-module tables (exhaustive)

def run_tables(ctx):
    from cirbo.core.circuit import Circuit, gate
    case = {'kind': 'tables'}
    CUR['case'] = case
    gt = netgen.gate_type_by_name()

    def tv(api, disc, msg):
        ctx.violation(api, 'wrong_result', disc, msg, case)

    # (a) operators vs reference, every operand tuple, arities 1..4
    n_checked = 0
    for t in netgen.ALL_GATE_TYPES:
        if t in refsem.NARY:
            arities = [2, 3, 4, 9]
        elif t in refsem.BINARY_ONLY:
            arities = [2]
        elif t in refsem.UNARY:
            arities = [1]
        else:
            arities = [0, 1, 2]
        for k in arities:
            for vals in itertools.product((False, True), repeat=k):
                try:
                    got = gt[t].operator(*vals)
                except Exception as e:
                    tv('operators.' + t, 'raises', '%s%r raised %r' % (t, vals, e))
                    continue
                want = refsem.op_scalar(t, vals)
                n_checked += 1
                ctx.case('op:%s:%r' % (t, vals), True)
                if got is not want:
                    tv('operators.' + t, 'table', '%s%r = %r, reference %r' % (t, vals, got, want))
    ctx.count('tables:operators', n_checked)

    def ref_tt(tname):
        return tuple(int(refsem.op_scalar(tname, (bool(i // 2), bool(i % 2)))) for i in range(4))

    # (b) synthesis tables
    from cirbo.synthesis import circuit_search as cs
    k = 0
    for tt, gtype in cs._tt_to_gate_type.items():
        k += 1
        ctx.case('cs_tt:%r' % (tt,), True)
        if ref_tt(gtype.name) != tuple(tt):
            tv('circuit_search._tt_to_gate_type', 'table', '%r -> %s but %s has table %r' % (tt, gtype.name, gtype.name, ref_tt(gtype.name)))
    if len(cs._tt_to_gate_type) != 16:
        tv('circuit_search._tt_to_gate_type', 'size', 'has %d entries' % len(cs._tt_to_gate_type))
    for op in cs.Operation:
        k += 1
        nm = op.name.rstrip('_').upper()
        ctx.case('cs_op:%s' % nm, True)
        if ''.join(map(str, ref_tt(nm))) != op.value:
            tv('circuit_search.Operation', 'table', 'Operation.%s = %s, reference %s' % (op.name, op.value, ref_tt(nm)))
    allowed = {'AIG': {'LNOT', 'AND', 'OR', 'NAND', 'NOR', 'GT', 'LT', 'GEQ', 'LEQ'}}
    allowed['XAIG'] = allowed['AIG'] | {'XOR', 'NXOR'}
    allowed['FULL'] = {o.name.rstrip('_').upper() for o in cs.Operation}
    for b in cs.Basis:
        k += 1
        names = {o.name.rstrip('_').upper() for o in b.value}
        ctx.case('cs_basis:%s' % b.name, True)
        if names != allowed[b.name]:
            tv('circuit_search.Basis', 'members', 'Basis.%s = %r' % (b.name, sorted(names)))
    ctx.count('tables:synthesis', k)

    # (c) arithmetic gate codes
    from cirbo.synthesis.generation.arithmetics import _utils as au
    k = 0
    for s, gtype in au.binary_tt_to_type.items():
        k += 1
        ctx.case('arith_tt:%s' % s, True)
        if ''.join(map(str, ref_tt(gtype.name))) != s:
            tv('arithmetics._utils.binary_tt_to_type', 'table', '%s -> %s, reference %r' % (s, gtype.name, ref_tt(gtype.name)))
    if len(au.binary_tt_to_type) != 16:
        tv('arithmetics._utils.binary_tt_to_type', 'size', 'has %d entries' % len(au.binary_tt_to_type))
    ctx.count('tables:arith', k)

    # (d) subcircuit pattern simulation
    from cirbo.minimization import subcircuit as sc
    k = 0
    for n in range(0, 11):
        # leaf patterns of every cone width the pass may be asked for (cut_size is a free parameter): pattern j is
        # the projection on variable j over all 2^n rows
        pats = sc._generate_inputs_tt(n)
        want = [sum(((i >> j) & 1) << i for i in range(1 << n)) for j in range(n)]
        k += 1
        ctx.case('leafpat:%d' % n, True)
        if list(pats) != want:
            bad = [j for j in range(n) if j >= len(pats) or pats[j] != want[j]]
            tv('subcircuit._generate_inputs_tt', 'table', 'width %d: leaf patterns %r are not the projections' % (n, bad))
    for n in (2, 3, 7):
        po = sc._PatternOperations(n)
        cols, mask, ns = refsem.canonical_columns(n)
        pats = sc._generate_inputs_tt(n)
        if po.max_pattern != mask:
            tv('subcircuit._PatternOperations', 'mask', 'max_pattern %r != %r' % (po.max_pattern, mask))
        for name in netgen.SUPPORTED_MIN:
            arity = 1 if name == 'NOT' else 2
            for ops in (itertools.product(range(n), repeat=arity) if n <= 3 else [(0, n - 1)[:arity], (n - 1, 0)[:arity], (5, 6)[:arity]]):
                k += 1
                got = po.eval_pattern([pats[i] for i in ops], name)
                want = refsem.op(name, [pats[i] for i in ops], mask)
                ctx.case('pat:%d:%s:%r' % (n, name, ops), True)
                if got != want:
                    tv('subcircuit._PatternOperations.eval_pattern', 'table', '%s on leaves %r: %r != %r' % (name, ops, got, want))
            # arbitrary patterns too
            for a, b in [(0, mask), (mask, 0), (5 & mask, 3 & mask), (mask, mask), (0, 0)]:
                k += 1
                got = po.eval_pattern([a, b], name)
                want = refsem.op(name, [a, b][:arity], mask)
                if got != want:
                    tv('subcircuit._PatternOperations.eval_pattern', 'table', '%s(%r,%r): %r != %r' % (name, a, b, got, want))
    ctx.count('tables:pattern', k)

    # (e) tseytin templates: models of template == graph of the function
    from cirbo.sat.cnf import tseytin as ts
    from vt import satref
    k = 0
    for t in netgen.ALL_GATE_TYPES:
        if t in refsem.NARY:
            arities = [2, 3, 4, 5, 8, 9, 10, 12]   # incl. sizes beyond the usual small-test range
        elif t in refsem.BINARY_ONLY:
            arities = [2]
        elif t in refsem.UNARY:
            arities = [1]
        else:
            arities = [0, 2]
        for ar in arities:
            c = Circuit()
            ins = ['i%d' % i for i in range(max(min(ar, 5), 1))]
            for i in ins:
                c.emplace_gate(i, gate.INPUT)
            # wide gates repeat their (at most five) inputs
            gate_ops = tuple(ins[j % len(ins)] for j in range(ar))
            c.emplace_gate('g', gt[t], gate_ops)
            c.set_outputs(['g'])
            cnf = ts.tseytin_transformation(c).get_raw()
            body = [cl for cl in cnf]
            # remove exactly one output unit clause [lit(g)] (the last clause)
            glit = body[-1][0]
            body = body[:-1]
            nvars = max([abs(l) for cl in cnf for l in cl] + [len(ins)])
            for vals in itertools.product((False, True), repeat=len(ins)):
                k += 1
                assum = [(i + 1) if v else -(i + 1) for i, v in enumerate(vals)]
                models = satref.count_models(body, [abs(glit)], assumptions=assum)
                want = refsem.op_scalar(t, [vals[j % len(ins)] for j in range(ar)])
                ctx.case('ts:%s/%d:%r' % (t, ar, vals), True)
                got = sorted(m[abs(glit)] for m in models)
                if got != [want]:
                    tv('tseytin._process_' + t.lower(), 'template', '%s/%d inputs %r: gate variable models %r, reference %r' % (t, ar, vals, got, want))
    ctx.count('tables:tseytin', k)

    # (f) bench converters on one-gate circuits, operand patterns (x,y) and (x,x)
    k = 0
    for t in netgen.ALL_GATE_TYPES:
        pats = [('x', 'y'), ('x', 'x'), ('y', 'x')] if t not in refsem.UNARY + refsem.CONST else ([('x',), ('y',)] if t in refsem.UNARY else [(), ('x', 'x')])
        for ops in pats:
            k += 1
            net = refsem.Net(['x', 'y'], ['g'], {'x': ('INPUT', ()), 'y': ('INPUT', ()), 'g': (t, ops)})
            want = refsem.output_table(net)
            c = netgen.build(net)
            with monitor.suspended():
                c.into_bench()
            got = refsem.output_table(refsem.net_of(c))
            ctx.case('conv:%s:%r' % (t, ops), True)
            if got != want:
                tv('converters._convert_' + t.lower(), 'function', '%s%r after into_bench computes %r, reference %r' % (t, ops, got, want))
            left = {g.gate_type.name for g in c.gates.values()}
            if not left <= {'INPUT', 'NOT', 'AND', 'OR', 'NAND', 'NOR', 'XOR', 'NXOR', 'IFF'}:
                tv('converters._convert_' + t.lower(), 'types', '%s%r leaves types %r' % (t, ops, sorted(left)))
    ctx.count('tables:converters', k)

    # (g) each gate type survives format_gate -> parser with the same type
    k = 0
    for t in netgen.ALL_GATE_TYPES:
        ops = ('x', 'y') if t not in refsem.UNARY + refsem.CONST else (('x',) if t in refsem.UNARY else ())
        k += 1
        net = refsem.Net(['x', 'y'], ['g'], {'x': ('INPUT', ()), 'y': ('INPUT', ()), 'g': (t, ops)})
        c = netgen.build(net)
        try:
            c2 = Circuit.from_bench_string(c.format_circuit())
            got = c2.get_gate('g').gate_type.name
            gops = tuple(c2.get_gate('g').operands)
        except Exception as e:
            tv('bench parser', 'raises', 'type %s: %r' % (t, e))
            continue
        ctx.case('fmt:%s' % t, True)
        if got != t or gops != ops:
            tv('bench parser', 'type', '%s%r re-parsed as %s%r' % (t, ops, got, gops))
    ctx.count('tables:format_parse', k)

    # (h) synthesis: a gate pinned to type T by fix_gate must come back denoting T's function, and a function
    # that is exactly T(x0, x1) must be found with one gate pinned to T (the constraint encoding is one more
    # place that interprets a gate type)
    k = 0
    try:
        from cirbo.core.truth_table import TruthTableModel
        from cirbo.synthesis.exception import NoSolutionError
        for t in OPS16_NAMES:
            k += 1
            want = [refsem.op_scalar(t, (bool(i // 2), bool(i % 2))) for i in range(4)]
            ctx.case('fix_gate_type:%s' % t, True)
            try:
                with monitor.suspended():
                    f = cs.CircuitFinderSat(TruthTableModel([want]), 1, basis=cs.Basis.FULL)
                    f.fix_gate(2, first_predecessor=0, second_predecessor=1, gate_type=gt[t])
                    c = f.find_circuit()
            except NoSolutionError:
                tv('CircuitFinderSat.fix_gate', 'type_code', 'no 1-gate circuit found for f = %s(x0, x1) with the gate pinned to %s' % (t, t))
                continue
            got = refsem.output_table(refsem.net_of(c))[0]
            gtype = c.get_gate('s2').gate_type.name
            if got != want or [refsem.op_scalar(gtype, (bool(i // 2), bool(i % 2))) for i in range(4)] != want:
                tv('CircuitFinderSat.fix_gate', 'type_code', 'gate pinned to %s came back as %s computing %r' % (t, gtype, got))
    except ImportError:
        pass
    ctx.count('tables:fix_gate_type', k)

    # (i) synthesis over a caller-chosen basis (a list of Operation - the documented form): the encoding reads each
    # operation's table again.  One gate over x0, x1: with basis [op] a circuit may only come back when it computes the
    # requested function under the reference tables, and must come back when the function is op(x0, x1) itself; the
    # same with every pair of operations (what two tables have in common is encoded once).
    k = 0
    try:
        from cirbo.core.truth_table import TruthTableModel
        from cirbo.synthesis.exception import NoSolutionError
        ops = list(cs.Operation)
        prng = __import__('random').Random('C01:basis:%s' % ctx.seed)
        reqs = [([op], f) for op in ops for f in range(16)]
        for a_ in range(len(ops)):
            for b_ in range(a_ + 1, len(ops)):
                fs = range(16) if ctx.tier == 'thorough' else prng.sample(range(16), 2)
                reqs += [([ops[a_], ops[b_]], f) for f in fs]
        for basis_ops, f in reqs:
            k += 1
            want = [bool((f >> (3 - i)) & 1) for i in range(4)]
            names = [o.name.rstrip('_').upper() for o in basis_ops]
            ctx.case('basis_list:%s:%d' % ('+'.join(names), f), True)
            realisable = any([refsem.op_scalar(nm, (bool(i // 2), bool(i % 2))) for i in range(4)] == want for nm in names)
            try:
                with monitor.suspended():
                    c = cs.CircuitFinderSat(TruthTableModel([want]), 1, basis=list(basis_ops)).find_circuit()
            except NoSolutionError:
                if realisable:
                    tv('CircuitFinderSat(basis=list)', 'type_code', 'f = %r is %s(x0, x1) for an operation of the basis %r, yet no 1-gate circuit was found' % (want, names, names))
                continue
            got = refsem.output_table(refsem.net_of(c))[0]
            if got != want:
                tv('CircuitFinderSat(basis=list)', 'type_code', 'basis %r, requested %r: returned circuit computes %r (gate %s)' % (
                    names, want, got, c.get_gate('s2').gate_type.name))
    except ImportError:
        pass
    ctx.count('tables:basis_list', k)
    ctx.exhaustive_spaces['cross_module_gate_tables'] = True
