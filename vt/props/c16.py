"""C16 - the database codec never silently changes a circuit.

Round-trip monitors: post-condition on the real encode_circuit (decode of the
produced bytes must give an equivalent circuit, or encode must raise a codec
error), inverse checks on BitWriter/BitReader and write/read_binary_dict
(incl. rejection of every strict prefix / extension), and save/open round trips
of CircuitsDatabase through BytesIO, .bin and .xz."""
from __future__ import annotations

import io
import lzma
import os
import random
import shutil
import tempfile

from vt import monitor, netgen, refsem, wf

ID = 'C16'
LEVEL = 'exploration'
RULE = ('circuits: format-domain circuits (14 format types, NOT/IFF unary, the rest binary incl. 2-operand constants) in '
        'arbitrary storage order with 0/1/many inputs and outputs, and out-of-domain circuits (0-operand constants, n-ary '
        'gates, L*/R* types); bit IO: random write programs (bits, numbers at width boundaries, bytes); dictionaries: ASCII / '
        'multi-byte unicode keys, empty and long values, every strict prefix and random extensions. distinct = structural hash '
        '/ byte string; non-trivial = >=2 non-input gates or word size >=2 (circuits), >=1 entry (dicts).')
ANCHOR_FILES = ['cirbo/circuits_db/circuits_encoding.py', 'cirbo/circuits_db/bit_io.py', 'cirbo/circuits_db/binary_dict_io.py',
                'cirbo/circuits_db/db.py']
ASSUMPTIONS = ['vt.refsem truth tables; "gate for gate up to renaming" is checked as equality of the multisets of '
               '(gate type, truth table) plus output tables in order']
FORMAT_TYPES = ['NOT', 'AND', 'OR', 'NOR', 'NAND', 'XOR', 'NXOR', 'IFF', 'GEQ', 'GT', 'LEQ', 'LT', 'ALWAYS_TRUE', 'ALWAYS_FALSE']
REQUIRED = {'mon:encode_circuit.roundtrip_ok': 200, 'mon:encode_circuit.codec_error': 20, 'domain:in': 150,
            'domain:in/shuffled_storage': 30, 'domain:in/const2': 10, 'domain:out': 50, 'bitio_programs': 100,
            'dict_roundtrips': 100, 'dict_unicode': 20, 'dict_odd_edge_codepoint': 20, 'dict_prefixes_rejected': 500, 'dict_extensions_rejected': 50,
            'db_roundtrip:BytesIO': 5, 'db_roundtrip:bin': 3, 'db_roundtrip:xz': 3, 'large_circuits': 2, 'reencoded_after_edit': 50}

CUR = {'ctx': None, 'case': None}


def shards(tier, seed):
    per = 500 if tier == 'quick' else 30000
    budget = 45 if tier == 'quick' else 540
    _out = [{'kind': 'random', 'count': per, 'budget_s': budget, 'max_g': 12 if tier == 'quick' else 40} for _ in range(16)]
    _out.append({'kind': 'large', 'count': 3 if tier == 'quick' else 30, 'budget_s': budget,
                 'depths': [300, 1200, 4000] if tier == 'quick' else [250, 260, 300, 1000, 1500, 5000, 20000, 70000]})
    if tier == 'thorough':
        _out.append({'kind': 'suite', 'select': ['tests/cirbo/circuits_db', 'tests/cirbo/synthesis'], 'budget_s': 900})
    return _out


def in_domain(net):
    for l, (t, ops) in net.gates.items():
        if t == 'INPUT':
            continue
        if t not in FORMAT_TYPES:
            return False
        if len(ops) != (1 if t in ('NOT', 'IFF') else 2):
            return False
    return True


@monitor.outer_only
def pre_encode(args, kwargs):
    c = args[0] if args else kwargs['circuit']
    with monitor.suspended():
        if wf.errors(c, check_copy=False):
            return None
    return refsem.net_of(c)


def _equiv(a, d):
    """a: original net, d: decoded net -> error string or None."""
    if len(d.inputs) != len(a.inputs):
        return 'input_count', 'decoded circuit has %d inputs, original %d' % (len(d.inputs), len(a.inputs))
    if len(d.outputs) != len(a.outputs):
        return 'output_count', 'decoded circuit has %d outputs, original %d' % (len(d.outputs), len(a.outputs))
    if len(d.gates) != len(a.gates):
        return 'gate_count', 'decoded circuit has %d gates, original %d' % (len(d.gates), len(a.gates))
    if len(a.inputs) > 10:
        return None
    va, ns = refsem.truth_tables(a)
    vd, _ = refsem.truth_tables(d)
    ta = [va[o] for o in a.outputs]
    td = [vd[o] for o in d.outputs]
    if ta != td:
        return 'function', 'decoded circuit computes %r, original %r' % (td, ta)
    ma = sorted((t, va[l]) for l, (t, o) in a.gates.items())
    md = sorted((t, vd[l]) for l, (t, o) in d.gates.items())
    if ma != md:
        return 'gate_functions', 'gate-for-gate comparison failed: (type, table) multisets differ'
    return None


@monitor.outer_only
def post_encode(net, args, kwargs, result):
    ctx = CUR['ctx']
    if net is None:
        ctx.mon('encode_circuit', 'skipped_not_wf')
        return
    from cirbo.circuits_db.circuits_encoding import decode_circuit
    from cirbo.circuits_db.exceptions import CircuitsDatabaseError
    dom = in_domain(net)
    try:
        with monitor.suspended():
            dec = decode_circuit(result)
    except CircuitsDatabaseError as e:
        if dom:
            ctx.violation('decode_circuit', 'exception', 'in_domain:' + type(e).__name__,
                          'bytes produced by encode_circuit for a format-domain circuit cannot be decoded: %r' % (e,), CUR['case'])
        else:
            # encode accepted it, decode rejects it: not silent, but the property wants the error at encode time
            ctx.violation('encode_circuit', 'wrong_result', 'undecodable_bytes_accepted',
                          'encode_circuit returned bytes that decode_circuit rejects (%r); the circuit is outside the format, encode should have raised' % (e,), CUR['case'])
        ctx.mon('encode_circuit', 'decode_failed')
        return
    except Exception as e:
        ctx.violation('decode_circuit', 'exception', type(e).__name__, 'decode of encode output raised %r' % (e,), CUR['case'])
        ctx.mon('encode_circuit', 'decode_failed')
        return
    with monitor.suspended():
        errs = wf.errors(dec, check_copy=False)
    if errs:
        ctx.violation('decode_circuit', 'invariant', 'not_wf', '; '.join(errs[:3]), CUR['case'])
        return
    err = _equiv(net, refsem.net_of(dec))
    if err:
        ctx.violation('encode_circuit', 'wrong_result', 'silently_different:' + err[0], err[1], CUR['case'])
        ctx.mon('encode_circuit', 'roundtrip_bad')
    else:
        ctx.mon('encode_circuit', 'roundtrip_ok')


def raise_encode(net, args, kwargs, exc):
    from cirbo.circuits_db.exceptions import CircuitsDatabaseError
    ctx = CUR['ctx']
    if net is None:
        return
    if isinstance(exc, CircuitsDatabaseError):
        if in_domain(net):
            ctx.violation('encode_circuit', 'exception', 'in_domain:' + type(exc).__name__,
                          'format-domain circuit rejected: %r' % (exc,), CUR['case'])
        else:
            ctx.mon('encode_circuit', 'codec_error')
    else:
        ctx.violation('encode_circuit', 'exception', type(exc).__name__,
                      'encode raised %r which is not a database-codec error' % (exc,), CUR['case'])


def install(ctx):
    import importlib
    CUR['ctx'] = ctx
    ce = importlib.import_module('cirbo.circuits_db.circuits_encoding')
    w = monitor.attach(ce, 'encode_circuit', pre=pre_encode, post=post_encode, on_raise=raise_encode,
                       counter=ctx.moncounter('encode_circuit'))
    db = importlib.import_module('cirbo.circuits_db.db')
    orig = db.encode_circuit
    db.encode_circuit = w
    monitor._installed.append((db, 'encode_circuit', orig))


# ------------------------------------------------------------------ workloads

def gen_circuit_case(rng, spec):
    dom = rng.random() < 0.65
    if dom:
        net = netgen.rand_net(rng, shape=rng.choice(netgen.SHAPES), types=FORMAT_TYPES, max_arity=2, const_operands=False,
                              min_in=0 if rng.random() < 0.05 else 1, max_in=rng.choice([1, 2, 4, 5, 8]),
                              max_g=spec.get('max_g', 12), n_out=rng.choice([0, 1, 1, 2, 3, 5]),
                              label_style=rng.choice(['plain', 'plain', 'digits', 'keyword', 'odd', 'odd', 'derived']))
        # constants must have the format's arity (2)
        g2 = {}
        labels = []
        for l, (t, ops) in net.gates.items():
            if t in ('ALWAYS_TRUE', 'ALWAYS_FALSE'):
                if labels:
                    ops = (rng.choice(labels), rng.choice(labels))
                else:
                    t, ops = 'INPUT', ()
            g2[l] = (t, ops)
            labels.append(l)
        ins = [l for l, (t, o) in g2.items() if t == 'INPUT']
        net = refsem.Net(ins, [o for o in net.outputs], g2)
    else:
        net = netgen.rand_net(rng, shape=rng.choice(netgen.SHAPES), max_arity=4, max_in=5, max_g=spec.get('max_g', 12))
    return {'kind': 'circuit', 'net': netgen.describe(net), 'rseed': rng.getrandbits(32), 'shuffle': rng.random() < 0.4,
            'edited': rng.random() < 0.3}


def check_circuit(case, ctx):
    from cirbo.circuits_db.circuits_encoding import encode_circuit
    CUR['case'] = case
    net = netgen.from_description(case['net'])
    rng = random.Random(case['rseed'])
    with monitor.suspended():
        try:
            c = netgen.build(net, rng=rng, shuffle_storage=case.get('shuffle', False))
        except Exception as e:
            ctx.count('build_failed:' + type(e).__name__)
            return
    if case.get('edited'):
        with monitor.suspended():
            case = dict(case, edits_applied=netgen.random_edits(c, rng, allow_into_bench=rng.random() < 0.3))
            CUR['case'] = case
            net = refsem.net_of(c)
        ctx.count('edited_circuits')
    dom = in_domain(net)
    ctx.count('domain:in' if dom else 'domain:out')
    if case.get('large'):
        ctx.count('large_circuits')
    if dom:
        order = list(c.gates)
        pos = {l: i for i, l in enumerate(order)}
        if any(pos[o] > pos[l] for l, g in c.gates.items() for o in g.operands):
            ctx.count('domain:in/shuffled_storage')
        if any(t in ('ALWAYS_TRUE', 'ALWAYS_FALSE') for t, _ in net.gates.values()):
            ctx.count('domain:in/const2')
    enc = None
    try:
        enc = encode_circuit(c)
    except Exception:
        pass
    if enc is not None and dom and not case.get('large') and rng.random() < 0.5:
        # what came out of the codec is used, edited through the public API (inputs / outputs re-ordered, a gate added
        # or renamed) and stored again: the monitor on encode_circuit judges this second round trip like any other
        try:
            from cirbo.circuits_db.circuits_encoding import decode_circuit
            with monitor.suspended():
                d = decode_circuit(enc)
                ins = list(d.inputs)
                rng.shuffle(ins)
                d.set_inputs(ins)
                outs = list(d.outputs)
                rng.shuffle(outs)
                d.set_outputs(outs)
                r_ = rng.random()
                labels = list(d.gates)
                if r_ < 0.3 and labels and not d.has_gate('extra_gate'):
                    from cirbo.core.circuit import gate as G
                    d.emplace_gate('extra_gate', G.AND, (rng.choice(labels), rng.choice(labels)))
                    d.set_outputs(list(d.outputs) + ['extra_gate'])
                elif r_ < 0.5 and labels:
                    l = rng.choice(labels)
                    if not d.has_gate('renamed_' + l):
                        d.rename_gate(l, 'renamed_' + l)
            CUR['case'] = dict(case, reencoded_after_edit=True)
            encode_circuit(d)
            ctx.count('reencoded_after_edit')
        except Exception as e:
            ctx.count('reencode_refused:' + type(e).__name__)
        CUR['case'] = case
    n_g = sum(1 for t, _ in net.gates.values() if t != 'INPUT')
    ctx.case(refsem.structural_hash(net) + ('s' if case.get('shuffle') else ''), n_g >= 2 or len(net.gates) >= 3,
             cls='circuit:' + ('in_domain' if dom else 'out_of_domain'),
             sample={'net': case['net'], 'in_domain': dom} if n_g >= 2 else None)


def check_bitio(case, ctx):
    from cirbo.circuits_db.bit_io import BitReader, BitWriter
    from cirbo.circuits_db.exceptions import BitIOError
    CUR['case'] = case
    prog = case['program']
    w = BitWriter()
    written = []
    try:
        for op in prog:
            if op[0] == 'bit':
                w.write(bool(op[1]))
                written.append(op)
            elif op[0] == 'byte':
                w.write_byte(op[1])
                written.append(op)
            else:
                v, width = op[1], op[2]
                try:
                    w.write_number(v, width)
                    if v >> width:
                        ctx.violation('BitWriter.write_number', 'wrong_result', 'oversize_accepted',
                                      'number %d accepted for %d bits' % (v, width), case)
                    written.append(op)
                except BitIOError:
                    if not (v >> width):
                        ctx.violation('BitWriter.write_number', 'exception', 'fitting_number_rejected',
                                      'number %d rejected for %d bits' % (v, width), case)
        data = bytes(w)
        total_bits = sum(1 if o[0] == 'bit' else (8 if o[0] == 'byte' else o[2]) for o in written)
        if len(data) != (total_bits + 7) // 8:
            ctx.violation('BitWriter', 'wrong_result', 'length', 'wrote %d bits into %d bytes' % (total_bits, len(data)), case)
        r = BitReader(data)
        for op in written:
            if op[0] == 'bit':
                got, want = r.read(), bool(op[1])
            elif op[0] == 'byte':
                got, want = r.read_byte(), op[1]
            else:
                got, want = r.read_number(op[2]), op[1]
            if got != want:
                ctx.violation('BitReader', 'wrong_result', 'not_inverse', 'wrote %r, read back %r' % (op, got), case)
                break
        # reading past the end must raise
        pad = len(data) * 8 - total_bits
        try:
            for _ in range(pad):
                r.read()
            r.read()
            ctx.violation('BitReader.read', 'wrong_result', 'read_past_end', 'reading past the end returned normally', case)
        except BitIOError:
            pass
    except Exception as e:
        ctx.unexpected('bit IO', e, case)
    ctx.count('bitio_programs')
    ctx.case('bitio:%r' % (prog,), len(written) >= 2, cls='bitio')


def check_dict(case, ctx):
    from cirbo.circuits_db.binary_dict_io import read_binary_dict, write_binary_dict
    from cirbo.circuits_db.exceptions import BinaryDictIOError
    CUR['case'] = case
    d = {k: bytes.fromhex(v) for k, v in case['dict']}
    try:
        s = io.BytesIO()
        write_binary_dict(d, s)
        data = s.getvalue()
        back = read_binary_dict(io.BytesIO(data))
        if back != d or list(back) != list(d):
            ctx.violation('write_binary_dict/read_binary_dict', 'wrong_result', 'not_inverse',
                          'dictionary with keys %r read back as keys %r' % (list(d)[:4], list(back)[:4]), case)
        ctx.count('dict_roundtrips')
        if any(ord(ch) > 127 for k in d for ch in k):
            ctx.count('dict_unicode')
        if any(k[:1] in _ODD or k[-1:] in _ODD for k in d):
            ctx.count('dict_odd_edge_codepoint')
        cuts = range(len(data)) if len(data) <= 300 else sorted(random.Random(case['rseed']).sample(range(len(data)), 200))
        for cut in cuts:
            try:
                read_binary_dict(io.BytesIO(data[:cut]))
                ctx.violation('read_binary_dict', 'wrong_result', 'truncated_accepted',
                              'strict prefix of %d/%d bytes was accepted' % (cut, len(data)), case)
                break
            except BinaryDictIOError:
                ctx.count('dict_prefixes_rejected')
            except Exception as e:
                ctx.violation('read_binary_dict', 'exception', 'truncated:' + type(e).__name__,
                              'strict prefix of %d/%d bytes raised %r instead of BinaryDictIOError' % (cut, len(data), e), case)
                break
        for ext in (b'\x00', b'\x00' * 8, bytes.fromhex(case.get('ext', '01'))):
            if not ext:
                continue
            try:
                read_binary_dict(io.BytesIO(data + ext))
                ctx.violation('read_binary_dict', 'wrong_result', 'trailing_accepted', 'trailing data accepted', case)
                break
            except BinaryDictIOError:
                ctx.count('dict_extensions_rejected')
            except Exception as e:
                ctx.violation('read_binary_dict', 'exception', 'trailing:' + type(e).__name__,
                              'trailing data raised %r instead of BinaryDictIOError' % (e,), case)
                break
    except Exception as e:
        ctx.unexpected('binary dict IO', e, case)
    ctx.case('dict:%r' % (case['dict'],), len(d) >= 1, cls='dict',
             sample={'keys': list(d)[:5], 'value_lengths': [len(v) for v in d.values()][:5]} if d else None)


def check_db(case, ctx):
    from cirbo.circuits_db.db import CircuitsDatabase
    CUR['case'] = case
    rng = random.Random(case['rseed'])
    nets = [netgen.from_description(x) for x in case['nets']]
    tmp = tempfile.mkdtemp(prefix='vt_c16_')
    try:
        db = CircuitsDatabase()
        db.open()
        stored = {}
        for i, net in enumerate(nets):
            with monitor.suspended():
                c = netgen.build(net, rng=rng, shuffle_storage=rng.random() < 0.3)
            label = 'lbl_%d_é' % i if rng.random() < 0.3 else None
            if label is not None and rng.random() < 0.4:
                label = _rand_key(rng) + label if rng.random() < 0.5 else label[4:] + _rand_key(rng)
                if label in stored or len(label.encode('utf-8')) > 65535:  # outside the format's key size limit
                    continue
                ctx.count('db_odd_label')
            try:
                db.add_circuit(c, label)
            except Exception as e:
                # refusing to store is not a silent change; outcome classes are reported
                ctx.count('add_circuit_refused:' + type(e).__name__)
                continue
            if label is None:
                label = '_'.join(''.join('1' if v else '0' for v in row) for row in refsem.output_table(net))
            stored[label] = net
        kind = case['medium']
        if kind == 'BytesIO':
            s = io.BytesIO()
            db.save(s)
            db2 = CircuitsDatabase(s)
        elif kind == 'bin':
            p = os.path.join(tmp, 'db.bin')
            with open(p, 'wb') as f:
                db.save(f)
            db2 = CircuitsDatabase(p)
        else:
            p = os.path.join(tmp, 'db.bin.xz')
            with lzma.open(p, 'wb') as f:
                db.save(f)
            db2 = CircuitsDatabase(p)
        with db2:
            for label, net in stored.items():
                got = db2.get_by_label(label)
                if got is None:
                    ctx.violation('CircuitsDatabase.save/open', 'wrong_result', 'entry_lost', 'label %r missing after save/open via %s' % (label, kind), case)
                    continue
                err = _equiv(net, refsem.net_of(got))
                if err:
                    ctx.violation('CircuitsDatabase.save/open', 'wrong_result', 'entry_changed:' + err[0], err[1], case)
            if db2.get_by_label('__absent__') is not None:
                ctx.violation('CircuitsDatabase.get_by_label', 'wrong_result', 'phantom', 'absent label returned a circuit', case)
        db.close()
        ctx.count('db_roundtrip:' + kind)
        ctx.case('db:%s:%r' % (kind, [refsem.structural_hash(n) for n in nets]), len(stored) >= 1, cls='db:' + kind)
    except Exception as e:
        ctx.unexpected('CircuitsDatabase', e, case)
    finally:
        shutil.rmtree(tmp, ignore_errors=True)


_ODD = ['\ufeff', '\x00', '\n', '\r', '\t', ' ', '\x7f', '\x80', '\xa0', '\u0301', 'e\u0301', '\u200b', '\u2028', '\ud7ff',
        '\ue000', '\ufffd', '\uffff', '\U00010000', '\U0010ffff', '\\', '"', "'", '%', '/']


def _rand_cp(rng):
    while True:
        cp = rng.randrange(0x110000) if rng.random() < 0.5 else rng.randrange(0x3000)
        if not 0xD800 <= cp <= 0xDFFF:
            return chr(cp)


def _rand_key(rng):
    r = rng.random()
    if r < 0.25:
        # code points that text layers like to treat specially (byte order mark, NUL, new lines, combining marks,
        # plane boundaries), at any position, and arbitrary code points
        return ''.join(rng.choice(_ODD) if rng.random() < 0.5 else rng.choice(['a', 'cell', '0', _rand_cp(rng)])
                       for _ in range(rng.randint(1, 4)))
    r = rng.random()
    if r < 0.5:
        return ''.join(rng.choice('01_abcXYZ') for _ in range(rng.randint(0, 12)))
    if r < 0.85:
        return ''.join(rng.choice(['é', 'ß', '日', '本', '𝔘', 'a', '0', '_', 'Ω', 'ж']) for _ in range(rng.randint(1, 8)))
    return rng.choice(['x', 'é']) * rng.choice([255, 256, 1000, 21845, 32767, 32768])


def gen_case(rng, spec):
    if spec.get('kind') == 'large':
        # thousands of gates: identifiers need more than one byte, long dependency chains
        binary = [t for t in FORMAT_TYPES if t not in ('NOT', 'IFF', 'INPUT', 'ALWAYS_TRUE', 'ALWAYS_FALSE', 'LNOT', 'RNOT', 'LIFF', 'RIFF')]
        return {'kind': 'circuit', 'net': netgen.deep_description(rng, spec['depths'], types=binary + ['NOT', 'IFF']),
                'rseed': rng.getrandbits(32), 'shuffle': rng.random() < 0.5, 'edited': False, 'large': True}
    r = rng.random()
    if r < 0.55:
        return gen_circuit_case(rng, spec)
    if r < 0.7:
        prog = []
        for _ in range(rng.randint(1, 14)):
            k = rng.random()
            if k < 0.3:
                prog.append(['bit', rng.randint(0, 1)])
            elif k < 0.45:
                prog.append(['byte', rng.randint(0, 255)])
            else:
                width = rng.choice([0, 1, 2, 3, 4, 7, 8, 9, 15, 16, 17, 31, 33])
                v = rng.choice([0, (1 << width) - 1, (1 << width), rng.getrandbits(width) if width else 0, 1 << max(width - 1, 0)])
                prog.append(['num', max(v, 0), width])
        return {'kind': 'bitio', 'program': prog}
    if r < 0.93:
        d = []
        seen = set()
        for _ in range(rng.choice([0, 1, 1, 2, 3, 6])):
            k = _rand_key(rng)
            if k in seen or len(k.encode('utf-8')) > 65535:
                continue
            seen.add(k)
            vl = rng.choice([0, 0, 1, 3, 17, 255, 256]) if rng.random() < 0.95 else rng.choice([65535, 40000])
            d.append([k, bytes(rng.getrandbits(8) for _ in range(vl)).hex()])
        return {'kind': 'dict', 'dict': d, 'rseed': rng.getrandbits(32), 'ext': '%02x' % rng.randint(1, 255)}
    nets = []
    for _ in range(rng.randint(1, 4)):
        c = gen_circuit_case(rng, {'max_g': 8})
        nets.append(c['net'])
    return {'kind': 'db', 'nets': nets, 'medium': rng.choice(['BytesIO', 'bin', 'xz']), 'rseed': rng.getrandbits(32)}


def check_case(case, ctx):
    k = case['kind']
    if k == 'circuit':
        check_circuit(case, ctx)
    elif k == 'bitio':
        check_bitio(case, ctx)
    elif k == 'dict':
        check_dict(case, ctx)
    else:
        check_db(case, ctx)


def run_shard(spec, ctx):
    install(ctx)
    if spec.get('kind') == 'suite':
        from vt import suite
        import sys
        suite.run(sys.modules[__name__], ctx, select=spec.get('select'))
        return
    for i in range(spec['count']):
        if ctx.out_of_time():
            ctx.count('stopped_on_budget')
            break
        check_case(gen_case(ctx.rng, spec), ctx)


def replay(case, ctx):
    install(ctx)
    check_case(case, ctx)
