"""C17 - shipped circuit databases are correct and lookups return the requested function.

Entry monitor: post-condition on the real CircuitsDatabase.get_by_label (decoded
circuit well formed, reference truth table == key, gate types within the
database's basis, format arities), driven over the stored keys (all of them in
the thorough tier).  Lookup monitors: post-conditions on get_by_raw_truth_table
and get_by_raw_truth_table_model against an own normaliser and an own index of
the stored keys (read from the file by an own reader)."""
from __future__ import annotations

import itertools
import lzma
import os
import random

from vt import monitor, netgen, refsem, wf

ID = 'C17'
LEVEL = 'exploration'
RULE = ('entries: every key of both shipped databases (thorough: all 2 x 349,724, sharded; quick: all 1- and 2-output '
        'entries + a seeded 5% sample of the 3-output entries); lookups: all tables with 2 inputs and 1..3 outputs, all '
        '3-input 1-output tables, sampled 3-input 2..3-output tables incl. equal and complementary outputs, don\'t-care '
        'models with <=6 (quick) / <=10 (thorough) free entries. distinct = key / lookup table; non-trivial = entry has a '
        'non-input gate; lookup needed negation, permutation or duplicate removal.')
ANCHOR_FILES = ['cirbo/circuits_db/db.py', 'cirbo/circuits_db/normalization.py', 'cirbo/circuits_db/circuits_encoding.py',
                'cirbo/circuits_db/data_utils.py']
ASSUMPTIONS = ['vt.refsem; own normaliser (negate rows starting with 1, sort, deduplicate) and own file reader define "stored"',
               'basis: AIG = two-input AND-class gates (AND/OR/NAND/NOR/GT/LT/GEQ/LEQ) + NOT/IFF; XAIG additionally XOR/NXOR']
AND_CLASS = {'AND', 'OR', 'NAND', 'NOR', 'GT', 'LT', 'GEQ', 'LEQ'}
BASIS = {'aig': AND_CLASS | {'INPUT', 'NOT', 'IFF'}, 'xaig': AND_CLASS | {'INPUT', 'NOT', 'IFF', 'XOR', 'NXOR'}}
REQUIRED = {'mon:get_by_label.checked': 2000, 'mon:get_by_raw_truth_table.checked': 500,
            'mon:get_by_raw_truth_table_model.checked': 50, 'lookup:negated': 100, 'lookup:permuted': 100,
            'lookup:duplicate': 50, 'lookup:complementary_outputs': 20, 'entries:aig': 1000, 'entries:xaig': 1000,
            'model:with_dont_cares': 30, 'model:custom_size_metric': 20, 'insertion_refused:CircuitsDatabaseError': 10, 'user_db:accepted': 20}

CUR = {'ctx': None, 'case': None, 'db': None, 'index': None, 'sizes': {}}


def shards(tier, seed):
    out = []
    if tier == 'quick':
        for dbn in ('aig', 'xaig'):
            for p in range(6):
                out.append({'kind': 'entries', 'db': dbn, 'part': p, 'parts': 6, 'sample': 0.05, 'budget_s': 50})
            for p in range(2):
                out.append({'kind': 'lookups', 'db': dbn, 'part': p, 'parts': 2, 'budget_s': 50, 'n3': 150, 'models': 60, 'maxdc': 6})
    else:
        for dbn in ('aig', 'xaig'):
            for p in range(24):
                out.append({'kind': 'entries', 'db': dbn, 'part': p, 'parts': 24, 'sample': 1.0, 'budget_s': 560})
            for p in range(8):
                out.append({'kind': 'lookups', 'db': dbn, 'part': p, 'parts': 8, 'budget_s': 560, 'n3': 4000, 'models': 600, 'maxdc': 10})
    return out


def post_aggregate(tier, info, exhaustive_spaces):
    for dbn in ('aig', 'xaig'):
        if info.get('entries_total:' + dbn) and info.get('entries_checked:' + dbn) == info.get('entries_in_file:' + dbn):
            exhaustive_spaces['all_entries_' + dbn] = True


# ------------------------------------------------------------------ own reader / normaliser

def db_path(name):
    return os.path.join(monitor.REPO, 'cirbo', 'data', '%s_db.bin.xz' % name)


def read_keys(path):
    """Own reader of the dictionary file: returns the list of keys (values skipped)."""
    with lzma.open(path, 'rb') as f:
        data = f.read()
    n = int.from_bytes(data[:8], 'big')
    pos = 8
    keys = []
    for _ in range(n):
        kl = int.from_bytes(data[pos:pos + 2], 'big')
        pos += 2
        keys.append(data[pos:pos + kl].decode('utf-8'))
        pos += kl
        vl = int.from_bytes(data[pos:pos + 2], 'big')
        pos += 2 + vl
    assert pos == len(data)
    return keys


def normalise(rows):
    """rows: list of tuples of bools -> (key string, negated?, permuted?, deduped?)"""
    neg = [r[0] for r in rows]
    rr = [tuple((not v) for v in r) if r[0] else tuple(r) for r in rows]
    srt = sorted(rr)
    ded = []
    for r in srt:
        if not ded or ded[-1] != r:
            ded.append(r)
    key = '_'.join(''.join('1' if v else '0' for v in r) for r in ded)
    return key, any(neg), srt != rr, len(ded) != len(srt)


def nontrivial_gates(net):
    return sum(1 for t, _ in net.gates.values() if t not in ('INPUT', 'NOT', 'LNOT', 'RNOT', 'IFF', 'LIFF', 'RIFF',
                                                              'ALWAYS_TRUE', 'ALWAYS_FALSE'))


# ------------------------------------------------------------------ monitors

DBS = {}   # id(db) -> (db, 'aig'|'xaig') for databases opened by the workload


def _basis_of(db):
    ent = DBS.get(id(db))
    if ent is not None and ent[0] is db:
        return ent[1]
    src = getattr(db, '_db_source', None)
    name = os.path.basename(str(src)) if src is not None else ''
    if name.startswith('aig_db'):
        return 'aig'
    if name.startswith('xaig_db'):
        return 'xaig'
    return None


def post_get_by_label(st, args, kwargs, result):
    ctx = CUR['ctx']
    db, label = args[0], (args[1] if len(args) > 1 else kwargs['label'])
    if result is None:
        ctx.mon('get_by_label', 'none')
        return
    basis = _basis_of(db)
    rows = label.split('_')
    if not rows or any(set(r) - {'0', '1'} for r in rows) or len({len(r) for r in rows}) != 1 or \
            len(rows[0]) & (len(rows[0]) - 1) or not rows[0]:
        if basis:
            ctx.violation('CircuitsDatabase.get_by_label', 'wrong_result', 'key_not_a_table', 'key %r is not a truth table' % label, CUR['case'])
        else:
            ctx.mon('get_by_label', 'skipped_label_not_table')
        return
    ctx.mon('get_by_label')

    def V(disc, msg):
        ctx.violation('CircuitsDatabase.get_by_label', 'wrong_result', disc, '[%s] key %s: %s' % (basis, label, msg), CUR['case'])

    with monitor.suspended():
        errs = wf.errors(result, check_copy=False)
    if errs:
        V('not_wf', '; '.join(errs[:2]))
        return
    net = refsem.net_of(result)
    n = len(rows[0]).bit_length() - 1
    if len(net.inputs) != n:
        V('input_count', 'circuit has %d inputs, key has 2^%d columns' % (len(net.inputs), n))
        return
    if len(net.outputs) != len(rows):
        V('output_count', 'circuit has %d outputs, key has %d rows' % (len(net.outputs), len(rows)))
        return
    ints, ns = refsem.output_ints(net)
    for j, (r, v) in enumerate(zip(rows, ints)):
        want = sum(1 << k for k, ch in enumerate(r) if ch == '1')
        if v != want:
            V('table_mismatch', 'output %d computes %s, key row is %s' % (j, format(v, '0%db' % ns)[::-1], r))
            return
    if basis:
        for l, (t, ops) in net.gates.items():
            if t not in BASIS[basis]:
                V('gate_outside_basis', 'gate %r has type %s' % (l, t))
                return
            if t != 'INPUT' and len(ops) != (1 if t in ('NOT', 'IFF') else 2):
                V('arity', 'gate %r: %s with %d operands' % (l, t, len(ops)))
                return
        key_norm = all(r[0] == '0' for r in rows) and rows == sorted(rows) and len(set(rows)) == len(rows)
        if not key_norm:
            V('key_not_normalised', 'stored key is not a normalised table')
    CUR['last_entry_nontrivial'] = any(t != 'INPUT' for t, _ in net.gates.values())


def _tt_rows(tt):
    return [tuple(bool(v) for v in r) for r in tt]


def post_lookup(st, args, kwargs, result):
    ctx = CUR['ctx']
    db = args[0]
    tt = args[1] if len(args) > 1 else kwargs['truth_table']
    idx = CUR['index'].get(_basis_of(db))
    if idx is None:
        ctx.mon('get_by_raw_truth_table', 'skipped_unknown_db')
        return
    try:
        rows = _tt_rows(tt)
        key, neg, perm, dup = normalise(rows)
    except Exception:
        ctx.mon('get_by_raw_truth_table', 'skipped_bad_table')
        return
    ctx.mon('get_by_raw_truth_table')
    CUR['last_flags'] = (neg, perm, dup)

    def V(disc, msg):
        ctx.violation('CircuitsDatabase.get_by_raw_truth_table', 'wrong_result', disc, msg, CUR['case'])

    if result is None:
        if key in idx:
            V('stored_but_none', 'normalised key %s is stored but the lookup returned None' % key)
        return
    with monitor.suspended():
        errs = wf.errors(result, check_copy=False)
    if errs:
        V('not_wf', '; '.join(errs[:2]))
        return
    net = refsem.net_of(result)
    if len(net.outputs) != len(rows):
        V('output_count', 'requested %d outputs, got %d' % (len(rows), len(net.outputs)))
        return
    ints, ns = refsem.output_ints(net)
    if ns != len(rows[0]):
        V('input_count', 'circuit has %d assignments, table %d' % (ns, len(rows[0])))
        return
    for j, (r, v) in enumerate(zip(rows, ints)):
        want = sum(1 << k for k, b in enumerate(r) if b)
        if v != want:
            V('wrong_function', 'output %d computes %s, requested %s (negated=%r permuted=%r duplicate=%r)' % (
                j, format(v, '0%db' % ns)[::-1], ''.join('1' if b else '0' for b in r), neg, perm, dup))
            return
    if key not in idx:
        V('returned_but_not_stored', 'normalised key %s is not stored but a circuit was returned' % key)


@monitor.outer_only
def post_model_lookup(st, args, kwargs, result):
    from cirbo.core.logic import DontCare
    ctx = CUR['ctx']
    db = args[0]
    tt = args[1] if len(args) > 1 else kwargs['truth_table']
    excl = args[2] if len(args) > 2 else kwargs.get('exclusion_list')
    basis = _basis_of(db)
    idx = CUR['index'].get(basis)
    if idx is None:
        ctx.mon('get_by_raw_truth_table_model', 'skipped_domain')
        return
    custom = excl is not None
    if custom:
        ctx.count('model:custom_size_metric')
    rows = [[(None if v is DontCare or v == DontCare else bool(v)) for v in r] for r in tt]
    free = [(j, k) for j, r in enumerate(rows) for k, v in enumerate(r) if v is None]
    if len(free) > 12:
        ctx.mon('get_by_raw_truth_table_model', 'skipped_too_many_dont_cares')
        return
    ctx.mon('get_by_raw_truth_table_model')
    if free:
        ctx.count('model:with_dont_cares')

    def V(disc, msg):
        ctx.violation('CircuitsDatabase.get_by_raw_truth_table_model', 'wrong_result', disc, msg, CUR['case'])

    # own minimum over all completions
    best = None
    for fill in itertools.product((False, True), repeat=len(free)):
        rr = [list(r) for r in rows]
        for (j, k), v in zip(free, fill):
            rr[j][k] = v
        key, _, _, _ = normalise([tuple(r) for r in rr])
        if key in idx:
            if custom:
                # caller-chosen size metric (gate types not to be counted), applied to what a plain lookup of the
                # completion yields; counted here from the operand relation
                with monitor.suspended():
                    cc = db.get_by_raw_truth_table([list(r) for r in rr])
                names = {getattr(t, 'name', str(t)) for t in excl}
                sz = sum(1 for t, _ in refsem.net_of(cc).gates.values() if t not in names)
            else:
                sz = _stored_size(db, basis, key)
            if best is None or sz < best:
                best = sz
    if result is None:
        if best is not None:
            V('stored_but_none', 'some completion is stored (size %d) but the lookup returned None' % best)
        return
    net = refsem.net_of(result)
    with monitor.suspended():
        errs = wf.errors(result, check_copy=False)
    if errs:
        V('not_wf', '; '.join(errs[:2]))
        return
    if len(net.outputs) != len(rows):
        V('output_count', 'requested %d outputs, got %d' % (len(rows), len(net.outputs)))
        return
    ints, ns = refsem.output_ints(net)
    for j, r in enumerate(rows):
        for k, v in enumerate(r):
            if v is not None and bool((ints[j] >> k) & 1) != v:
                V('disagrees_with_defined_entry', 'output %d at assignment %d is %r, model says %r' % (j, k, bool((ints[j] >> k) & 1), v))
                return
    got = nontrivial_gates(net)
    if custom:
        names = {getattr(t, 'name', str(t)) for t in excl}
        got = sum(1 for t, _ in net.gates.values() if t not in names)
    if best is None:
        V('returned_but_not_stored', 'no completion is stored but a circuit was returned')
    elif got > best:
        V('not_smallest', 'returned circuit has %d non-trivial gates, a stored completion has %d' % (got, best))


def _stored_size(db, basis, key):
    c = CUR['sizes'].get((basis, key))
    if c is None:
        with monitor.suspended():
            circ = db.get_by_label(key)
        c = nontrivial_gates(refsem.net_of(circ))
        CUR['sizes'][(basis, key)] = c
    return c


def install(ctx):
    from cirbo.circuits_db.db import CircuitsDatabase
    CUR['ctx'] = ctx
    CUR['index'] = {}
    monitor.attach(CircuitsDatabase, 'get_by_label', post=post_get_by_label, counter=ctx.moncounter('get_by_label'))
    monitor.attach(CircuitsDatabase, 'get_by_raw_truth_table', post=post_lookup)
    monitor.attach(CircuitsDatabase, 'get_by_raw_truth_table_model', post=post_model_lookup)


# ------------------------------------------------------------------ workloads

def open_db(name):
    from cirbo.circuits_db.db import CircuitsDatabase
    from cirbo.circuits_db import data_utils
    path = data_utils.DEFAULT_AIG_DB_PATH if name == 'aig' else data_utils.DEFAULT_XAIG_DB_PATH
    if os.path.realpath(str(path)) != os.path.realpath(db_path(name)):
        CUR['ctx'].note_inconclusive('default %s database path %s is not the repository file' % (name, path))
    db = CircuitsDatabase(path)
    try:
        db.open()
    except Exception as e:
        # the library cannot open the file it ships: no entry of it decodes
        CUR['ctx'].unexpected('CircuitsDatabase.open', e, {'kind': 'open', 'db': name})
        return None, []
    DBS[id(db)] = (db, name)
    keys = read_keys(db_path(name))
    CUR['index'][name] = set(keys)
    return db, keys


def run_entries(spec, ctx):
    name = spec['db']
    db, keys = open_db(name)
    if db is None:
        return
    ctx.info['entries_in_file:' + name] = len(keys) if spec['part'] == 0 else 0
    ctx.info['entries_total:' + name] = 1 if spec['part'] == 0 else 0
    if spec['part'] == 0 and len(keys) != len(set(keys)):
        ctx.violation('database file', 'wrong_result', 'duplicate_keys', '%s has duplicate keys' % name, {'db': name})
    rng = random.Random('%s:%s:%s' % (ctx.seed, name, spec['part']))
    checked = 0
    for i, k in enumerate(keys):
        if i % spec['parts'] != spec['part']:
            continue
        nrows = k.count('_') + 1
        if spec['sample'] < 1.0 and nrows >= 3 and len(k) > 20 and rng.random() >= spec['sample']:
            continue
        if ctx.out_of_time():
            ctx.count('stopped_on_budget')
            ctx.note_inconclusive('entry scan of %s part %d ran out of budget' % (name, spec['part']))
            break
        CUR['case'] = {'kind': 'entry', 'db': name, 'key': k}
        CUR['last_entry_nontrivial'] = False
        try:
            c = db.get_by_label(k)
            if c is not None and rng.random() < 0.3:
                # the owner edits what it was handed; a later fetch of the same entry must not see it
                with monitor.suspended():
                    from vt import netgen as _ng
                    _ng.scribble(c, rng)
                c = db.get_by_label(k)
                ctx.count('refetched_after_scribble')
            if c is None:
                ctx.violation('CircuitsDatabase.get_by_label', 'wrong_result', 'key_lost', 'key %s read by the own reader is not found' % k, CUR['case'])
        except Exception as e:
            ctx.unexpected('CircuitsDatabase.get_by_label', e, CUR['case'])
        # the entry looked up through the normalising interface in denormalised forms: every output complemented (so each
        # stored output is denormalised with a negation at least once) and a random negation / order pattern
        if spec.get('variants', True) and (spec['sample'] >= 1.0 or rng.random() < 0.5):
            try:
                base_rows = [tuple(ch == '1' for ch in part) for part in k.split('_')]
                allneg = [tuple(not v for v in r) for r in base_rows]
                rnd = [tuple((not v) if f else v for v in r) for r, f in zip(base_rows, [rng.random() < 0.5 for _ in base_rows])]
                rng.shuffle(rnd)
                for rows_ in (allneg, rnd):
                    do_lookup(db, name, rows_, ctx)
                    ctx.count('entry_variant_lookups')
            except Exception as e:
                ctx.count('entry_variant_failed:' + type(e).__name__)
            CUR['case'] = {'kind': 'entry', 'db': name, 'key': k}
        checked += 1
        ctx.count('entries:' + name)
        ctx.case('%s:%s' % (name, k), CUR['last_entry_nontrivial'], cls='entry:%s/%d_rows' % (name, nrows),
                 sample={'db': name, 'key': k, 'bench': c.format_circuit()} if (checked % 997 == 1 and c is not None) else None)
    ctx.info['entries_checked:' + name] = checked
    db.close()


def _all_tables(n, m):
    rows = list(itertools.product((False, True), repeat=1 << n))
    return itertools.product(rows, repeat=m)


def do_lookup(db, name, rows, ctx):
    CUR['case'] = {'kind': 'lookup', 'db': name, 'table': [''.join('1' if v else '0' for v in r) for r in rows]}
    CUR['last_flags'] = (False, False, False)
    try:
        got = db.get_by_raw_truth_table([list(r) for r in rows])
        if got is not None and CUR.get('scribble_rng') is not None and CUR['scribble_rng'].random() < 0.5:
            with monitor.suspended():
                from vt import netgen as _ng
                _ng.scribble(got, CUR['scribble_rng'])
            ctx.count('result_scribbled')
    except Exception as e:
        ctx.unexpected('CircuitsDatabase.get_by_raw_truth_table', e, CUR['case'])
        return
    neg, perm, dup = CUR['last_flags']
    if neg:
        ctx.count('lookup:negated')
    if perm:
        ctx.count('lookup:permuted')
    if dup:
        ctx.count('lookup:duplicate')
    if any(tuple(not v for v in r) in rows for r in rows):
        ctx.count('lookup:complementary_outputs')
    ctx.case('%s:lookup:%r' % (name, CUR['case']['table']), neg or perm or dup, cls='lookup:%s/%din_%dout' % (
        name, len(rows[0]).bit_length() - 1, len(rows)),
        sample=CUR['case'] if (neg and perm and dup) else None)


def run_user_db(rng, ctx, count=40):
    """A database the caller builds: circuits over every gate type and arity are offered under the label of their own
    truth table; each is either refused, or what is fetched under that label computes the label (the monitor on
    get_by_label decides) - the same promise the shipped files make, for entries that went through add_circuit here."""
    from cirbo.circuits_db.db import CircuitsDatabase
    try:
        udb = CircuitsDatabase()
        udb.open()
    except Exception as e:
        ctx.count('user_db_setup_failed:' + type(e).__name__)
        return
    for _ in range(count):
        with monitor.suspended():
            unet = netgen.rand_net(rng, n_in=rng.randint(1, 3), n_g=rng.randint(1, 5), max_arity=4, n_out=rng.randint(1, 2),
                                   shape=rng.choice(['random', 'nary', 'consts', 'unary']), allow_repeat_outputs=False)
            try:
                uc = netgen.build(unet)
            except Exception:
                continue
            ints, ns = refsem.output_ints(unet)
        if not ints:
            continue
        label = '_'.join(''.join('1' if (v >> k) & 1 else '0' for k in range(ns)) for v in ints)
        CUR['case'] = {'kind': 'user_db', 'net': netgen.describe(unet), 'label': label}
        try:
            udb.add_circuit(uc, label)
        except Exception as e:
            ctx.count('user_db:refused:' + type(e).__name__)
            continue
        ctx.count('user_db:accepted')
        try:
            got = udb.get_by_label(label)
            if got is None:
                ctx.violation('CircuitsDatabase.get_by_label', 'wrong_result', 'key_lost', 'label %s was accepted by add_circuit but is not found' % label, CUR['case'])
        except Exception as e:
            ctx.unexpected('CircuitsDatabase.get_by_label', e, CUR['case'])


def run_lookups(spec, ctx):
    from cirbo.core.logic import DontCare
    name = spec['db']
    db, keys = open_db(name)
    if db is None:
        return
    rng = random.Random('%s:%s:lk:%s' % (ctx.seed, name, spec['part']))
    CUR['scribble_rng'] = random.Random('%s:scribble' % ctx.seed)
    # insertions the opened database must refuse (the label / normalised table is stored already): the caller catches the
    # error and goes on looking things up - a refused insertion must not have changed what is stored
    for k in range(6):
        try:
            with monitor.suspended():
                n_ = rng.choice([2, 3])
                unet = netgen.rand_net(rng, n_in=n_, n_g=rng.randint(1, 4), max_arity=2, n_out=rng.randint(1, 2),
                                       const_operands=False, allow_input_outputs=False,
                                       types=['AND', 'OR', 'XOR', 'NOT', 'NAND', 'NOR'])
                uc = netgen.build(unet)
            label = None if rng.random() < 0.5 else rng.choice(['0001', '0110', '0111', '00010111', '0001_0110'])
            try:
                db.add_circuit(uc, label)
                ctx.count('insertion_accepted')
            except Exception as e:
                ctx.count('insertion_refused:' + type(e).__name__)
        except Exception as e:
            ctx.count('insertion_setup_failed:' + type(e).__name__)
    run_user_db(rng, ctx)
    i = 0
    for n, m in ((2, 1), (2, 2), (2, 3), (3, 1)):
        for rows in _all_tables(n, m):
            i += 1
            if i % spec['parts'] != spec['part']:
                continue
            if ctx.out_of_time():
                ctx.note_inconclusive('lookup enumeration ran out of budget')
                break
            do_lookup(db, name, list(rows), ctx)
    if not ctx.out_of_time():
        ctx.info['lookup_parts_done:' + name] = 1
    for _ in range(spec['n3']):
        if ctx.out_of_time():
            break
        m = rng.choice([2, 3])
        rows = [tuple(rng.random() < 0.5 for _ in range(8)) for _ in range(m)]
        r = rng.random()
        if r < 0.2:
            rows[1] = rows[0]
        elif r < 0.4:
            rows[-1] = tuple(not v for v in rows[0])
        elif r < 0.5 and m == 3:
            rows[1] = rows[0]
            rows[2] = tuple(not v for v in rows[0])
        do_lookup(db, name, rows, ctx)
    # models with don't cares
    for _ in range(spec['models']):
        if ctx.out_of_time():
            break
        n = rng.choice([2, 3, 3])
        m = rng.choice([1, 2, 3])
        rows = [[rng.random() < 0.5 for _ in range(1 << n)] for _ in range(m)]
        cells = [(j, k) for j in range(m) for k in range(1 << n)]
        ndc = rng.randint(0, min(spec['maxdc'], len(cells)))
        model = [list(r) for r in rows]
        for j, k in rng.sample(cells, ndc):
            model[j][k] = DontCare
        CUR['case'] = {'kind': 'model', 'db': name, 'table': [''.join('*' if v is DontCare else ('1' if v else '0') for v in r) for r in model]}
        try:
            r_ = rng.random()
            if r_ < 0.6:
                db.get_by_raw_truth_table_model(model)
            else:
                from cirbo.core.circuit import gate as G
                excl = rng.choice([None, [], [G.INPUT], [G.INPUT, G.NOT], [G.NOT], [G.INPUT, G.NOT, G.AND], [G.INPUT, G.XOR]])
                CUR['case'] = dict(CUR['case'], exclusion_list=None if excl is None else [t.name for t in excl])
                if rng.random() < 0.5:
                    db.get_by_raw_truth_table_model(model, exclusion_list=excl)
                else:
                    db.get_by_raw_truth_table_model(model, excl)
        except Exception as e:
            ctx.unexpected('CircuitsDatabase.get_by_raw_truth_table_model', e, CUR['case'])
            continue
        ctx.case('%s:model:%r' % (name, CUR['case']['table']), ndc > 0, cls='model:%s' % name,
                 sample=CUR['case'] if ndc >= 3 else None)
    db.close()


def run_shard(spec, ctx):
    install(ctx)
    if spec['kind'] == 'entries':
        run_entries(spec, ctx)
    else:
        run_lookups(spec, ctx)


def replay(case, ctx):
    from cirbo.core.logic import DontCare
    install(ctx)
    if case.get('kind') == 'user_db':
        from cirbo.circuits_db.db import CircuitsDatabase
        CUR['case'] = case
        udb = CircuitsDatabase()
        udb.open()
        with monitor.suspended():
            uc = netgen.build(netgen.from_description(case['net']))
        try:
            udb.add_circuit(uc, case['label'])
        except Exception as e:
            ctx.count('user_db:refused:' + type(e).__name__)
            ctx.case('user_db:' + case['label'], True)
            return
        udb.get_by_label(case['label'])
        ctx.case('user_db:' + case['label'], True)
        return
    name = case['db']
    db, keys = open_db(name)
    if db is None or case['kind'] == 'open':
        return
    CUR['case'] = case
    if case['kind'] == 'entry':
        db.get_by_label(case['key'])
    elif case['kind'] == 'lookup':
        db.get_by_raw_truth_table([[ch == '1' for ch in r] for r in case['table']])
    else:
        kw = {}
        if 'exclusion_list' in case:
            from cirbo.core.circuit import gate as G
            kw['exclusion_list'] = None if case['exclusion_list'] is None else [getattr(G, t) for t in case['exclusion_list']]
        db.get_by_raw_truth_table_model([[DontCare if ch == '*' else ch == '1' for ch in r] for r in case['table']], **kw)
