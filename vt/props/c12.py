"""C12 - all function representations answer every protocol query alike and correctly.

The harness registers, for every Circuit / TruthTable / PyFunction object it
creates, the truth table the object is meant to represent.  Post-condition
monitors on every protocol method of the three real classes compare the answer
with the mathematical definition evaluated on the registered table.  Model
completion (define) and the integer wrappers are monitored the same way."""
from __future__ import annotations

import itertools
import random

from vt import monitor, netgen, refsem

ID = 'C12'
LEVEL = 'exploration'
RULE = ('all functions {0,1}^n -> {0,1}^m for n<=3, m=1 and n<=2, m<=3 (complete in both tiers), n=3 m=2 and n=4 m=1 '
        'sampled (quick) / complete (thorough); three representations per table (TruthTable, PyFunction, Circuit built as '
        'sum of minterms or as a random circuit tabulated by the reference interpreter) x all protocol queries x all index '
        'arguments; model completion with every don\'t-care pattern sampled; integer wrappers in both bit orders. distinct = '
        'truth table; non-trivial = not constant on every output.')
ANCHOR_FILES = ['cirbo/core/boolean_function.py', 'cirbo/core/truth_table.py', 'cirbo/core/python_function.py',
                'cirbo/core/circuit/circuit.py', 'cirbo/core/utils.py', 'cirbo/core/circuit/utils.py', 'cirbo/core/logic.py']
ASSUMPTIONS = ['the definitions in vt/props/c12.py (written from the protocol docstrings); monotone means the documented '
               'row shape i..i ~i..~i in canonical input order', 'n>=1']
QUERIES = ['evaluate', 'evaluate_at', 'is_constant', 'is_constant_at', 'is_monotone', 'is_monotone_at', 'is_symmetric',
           'is_symmetric_at', 'is_dependent_on_input_at', 'is_output_equal_to_input',
           'is_output_equal_to_input_negation', 'get_significant_inputs_of', 'find_negations_to_make_symmetric',
           'get_truth_table']
REQUIRED = {}
for _c in ('Circuit', 'TruthTable', 'PyFunction'):
    for _q in QUERIES:
        REQUIRED['mon:%s.%s.checked' % (_c, _q)] = 50
REQUIRED.update({'define:TruthTableModel': 30, 'define:PyFunctionModel': 30, 'define:Function': 10, 'intwrap:unary': 20,
                 'intwrap:binary': 20, 'intwrap:wide': 10, 'model:check': 30, 'requeried_after_edit': 100})
EXHAUSTIVE_WHEN = {'quick': ['n=1,2,3,m=1', 'n=1,2,m=2', 'n=1,m=3'],
                   'thorough': ['n=1,2,3,m=1', 'n=1,2,m=2', 'n=1,2,m=3', 'n=3,m=2', 'n=4,m=1']}


def post_aggregate(tier, info, exhaustive_spaces):
    # a sub-space is complete when all of its parts reported completion (parts_total sums 1/parts per finished part)
    for k, v in list(info.items()):
        if k.startswith('parts_total:') and abs(v - 1.0) < 1e-6:
            exhaustive_spaces[k[len('parts_total:'):]] = True


CUR = {'ctx': None, 'case': None}
REG = {}   # id(obj) -> (obj, n, [row ints])  (obj kept alive so ids are not reused)


def shards(tier, seed):
    out = []
    budget = 50 if tier == 'quick' else 560
    if tier == 'quick':
        out.append({'kind': 'space', 'n': [1, 2, 3], 'm': 1, 'part': 0, 'parts': 1, 'budget_s': budget})
        out.append({'kind': 'space', 'n': [1, 2], 'm': 2, 'part': 0, 'parts': 1, 'budget_s': budget})
        out.append({'kind': 'space', 'n': [1], 'm': 3, 'part': 0, 'parts': 1, 'budget_s': budget})
        for p in range(3):
            out.append({'kind': 'sample', 'n': 2, 'm': 3, 'count': 60, 'budget_s': budget})
        for p in range(4):
            out.append({'kind': 'sample', 'n': 3, 'm': 2, 'count': 60, 'budget_s': budget})
        for p in range(3):
            out.append({'kind': 'sample', 'n': 4, 'm': 1, 'count': 40, 'budget_s': budget})
        for n_ in (4, 4, 5):
            out.append({'kind': 'sample', 'n': n_, 'm': 1, 'count': 60 if n_ == 4 else 12, 'invariant': True, 'budget_s': budget})
        out.append({'kind': 'extras', 'count': 150, 'budget_s': budget})
        out.append({'kind': 'extras', 'count': 150, 'budget_s': budget})
    else:
        out.append({'kind': 'space', 'n': [1, 2, 3], 'm': 1, 'part': 0, 'parts': 1, 'budget_s': budget})
        out.append({'kind': 'space', 'n': [1, 2], 'm': 2, 'part': 0, 'parts': 1, 'budget_s': budget})
        out.append({'kind': 'space', 'n': [1, 2], 'm': 3, 'part': 0, 'parts': 1, 'budget_s': budget})
        for p in range(24):
            out.append({'kind': 'space', 'n': [3], 'm': 2, 'part': p, 'parts': 24, 'budget_s': budget})
        for p in range(32):
            out.append({'kind': 'space', 'n': [4], 'm': 1, 'part': p, 'parts': 32, 'budget_s': budget})
        for n_ in (4, 5, 5, 6):
            out.append({'kind': 'sample', 'n': n_, 'm': 1, 'count': 3000 if n_ <= 5 else 150, 'invariant': True, 'budget_s': budget})
        for p in range(4):
            out.append({'kind': 'extras', 'count': 1500, 'budget_s': budget})
    return out


# ------------------------------------------------------------------ definitions on a table (rows as ints, bit k = value at canonical index k)

def bit(row, k):
    return bool((row >> k) & 1)


def inp(k, i, n):
    return bool((k >> (n - 1 - i)) & 1)


def d_constant(row, n):
    return row == 0 or row == (1 << (1 << n)) - 1


def d_monotone(row, n, inverse):
    seq = [bit(row, k) for k in range(1 << n)]
    started = False
    for v in seq:
        if not started and v != inverse:
            started = True
        elif started and v == inverse:
            return False
    return True


def d_symmetric(row, n):
    byw = {}
    for k in range(1 << n):
        w = bin(k).count('1')
        v = bit(row, k)
        if byw.setdefault(w, v) != v:
            return False
    return True


def d_depends(row, n, i):
    m = 1 << (n - 1 - i)
    return any(bit(row, k) != bit(row, k ^ m) for k in range(1 << n))


def d_equal_input(row, n, i, neg):
    return all(bit(row, k) == (inp(k, i, n) != neg) for k in range(1 << n))


def d_sym_under(rows, n, neg):
    m = 0
    for i, v in enumerate(neg):
        if v:
            m |= 1 << (n - 1 - i)
    for row in rows:
        byw = {}
        for y in range(1 << n):
            w = bin(y).count('1')
            v = bit(row, y ^ m)
            if byw.setdefault(w, v) != v:
                return False
    return True


def d_exists_negations(rows, n):
    return any(d_sym_under(rows, n, neg) for neg in itertools.product((False, True), repeat=n))


# ------------------------------------------------------------------ monitors

def register(obj, n, rows):
    REG[id(obj)] = (obj, n, list(rows))
    return obj


def _mk_post(cls_name, q):
    key = '%s.%s' % (cls_name, q)

    def post(st, args, kwargs, result):
        ent = REG.get(id(args[0]))
        ctx = CUR['ctx']
        if ent is None or ent[0] is not args[0]:
            ctx.mon(key, 'skipped_unregistered')
            return
        _, n, rows = ent
        m = len(rows)
        a = list(args[1:])

        def kw(name, pos, default=None):
            return a[pos] if len(a) > pos else kwargs.get(name, default)

        ctx.mon(key)
        want = None
        try:
            if q == 'evaluate':
                x = list(kw('inputs', 0))
                k = int(''.join('1' if v else '0' for v in x), 2) if x else 0
                want = [bit(r, k) for r in rows]
                ok = list(result) == want
            elif q == 'evaluate_at':
                x = list(kw('inputs', 0))
                j = kw('output_index', 1)
                k = int(''.join('1' if v else '0' for v in x), 2) if x else 0
                want = bit(rows[j], k)
                ok = result == want and isinstance(result, bool)
            elif q == 'is_constant':
                want = all(d_constant(r, n) for r in rows)
                ok = result is want
            elif q == 'is_constant_at':
                want = d_constant(rows[kw('output_index', 0)], n)
                ok = result is want
            elif q == 'is_monotone':
                inv = kw('inverse', 0, False)
                want = all(d_monotone(r, n, inv) for r in rows)
                ok = result is want
            elif q == 'is_monotone_at':
                inv = kw('inverse', 1, False)
                want = d_monotone(rows[kw('output_index', 0)], n, inv)
                ok = result is want
            elif q == 'is_symmetric':
                want = all(d_symmetric(r, n) for r in rows)
                ok = result is want
            elif q == 'is_symmetric_at':
                want = d_symmetric(rows[kw('output_index', 0)], n)
                ok = result is want
            elif q == 'is_dependent_on_input_at':
                want = d_depends(rows[kw('output_index', 0)], n, kw('input_index', 1))
                ok = result is want
            elif q == 'is_output_equal_to_input':
                want = d_equal_input(rows[kw('output_index', 0)], n, kw('input_index', 1), False)
                ok = result is want
            elif q == 'is_output_equal_to_input_negation':
                want = d_equal_input(rows[kw('output_index', 0)], n, kw('input_index', 1), True)
                ok = result is want
            elif q == 'get_significant_inputs_of':
                j = kw('output_index', 0)
                want = [i for i in range(n) if d_depends(rows[j], n, i)]
                ok = list(result) == want
            elif q == 'find_negations_to_make_symmetric':
                sel = list(kw('output_index', 0))
                sub = [rows[j] for j in sel]
                exists = d_exists_negations(sub, n)
                if result is None:
                    ok = not exists
                    want = 'a negation vector exists' if exists else None
                else:
                    ok = len(result) == n and d_sym_under(sub, n, list(result))
                    want = 'a valid witness (exists=%r)' % exists
            elif q in ('get_truth_table', 'get_model_truth_table'):
                want = [[bit(r, k) for k in range(1 << n)] for r in rows]
                ok = [list(r) for r in result] == want
            elif q == 'check':
                x = list(kw('inputs', 0))
                k = int(''.join('1' if v else '0' for v in x), 2) if x else 0
                want = [bit(r, k) for r in rows]
                ok = list(result) == want
            elif q == 'check_at':
                x = list(kw('inputs', 0))
                k = int(''.join('1' if v else '0' for v in x), 2) if x else 0
                want = bit(rows[kw('output_index', 1)], k)
                ok = result == want
            else:
                return
        except Exception as e:  # oracle could not interpret the arguments
            ctx.mon(key, 'skipped_oracle_' + type(e).__name__)
            return
        if not ok:
            ctx.violation('%s.%s' % (cls_name, q), 'wrong_result', 'definition',
                          '%s.%s(%r %r) = %r, definition gives %r (n=%d, table rows %s)' % (
                              cls_name, q, a, kwargs, result, want, n, [bin(r) for r in rows]), CUR['case'])

    return post


def install(ctx):
    from cirbo.core.circuit import Circuit
    from cirbo.core.truth_table import TruthTable
    from cirbo.core.python_function import PyFunction
    from cirbo.core.boolean_function import Function
    CUR['ctx'] = ctx
    for cls in (Circuit, TruthTable, PyFunction):
        for q in QUERIES:
            if q in cls.__dict__:
                monitor.attach(cls, q, post=_mk_post(cls.__name__, q), counter=ctx.moncounter('%s.%s' % (cls.__name__, q)))
    # inherited model-view methods live on the Function protocol class
    for q in ('check', 'check_at', 'get_model_truth_table'):
        if q in Function.__dict__:
            monitor.attach(Function, q, post=_mk_post('Function', q))


# ------------------------------------------------------------------ builders

def rows_to_lists(rows, n):
    return [[bit(r, k) for k in range(1 << n)] for r in rows]


def make_truth_table(rows, n, rng):
    from cirbo.core.truth_table import TruthTable
    t = rows_to_lists(rows, n)
    style = rng.random()
    if style < 0.3:
        t = [''.join('1' if v else '0' for v in r) for r in t]
    elif style < 0.5:
        t = [[int(v) for v in r] for r in t]
    return register(TruthTable(t), n, rows)


class _Seq:
    """A minimal read-only Sequence that is neither list nor tuple (what a callable may legally return)."""
    def __init__(self, items):
        self._items = tuple(items)

    def __len__(self):
        return len(self._items)

    def __getitem__(self, i):
        return self._items[i]

    def __iter__(self):
        return iter(self._items)

    def __eq__(self, other):
        try:
            return len(other) == len(self._items) and all(a == b for a, b in zip(self._items, other))
        except TypeError:
            return NotImplemented

    __hash__ = None


import collections.abc as _abc
_abc.Sequence.register(_Seq)


def seq_flavour(rng):
    """The container type a user callable returns its outputs in: the protocol says Sequence, so list, tuple and a
    user-defined Sequence are all ordinary."""
    r = rng.random()
    if r < 0.5:
        CUR['ctx'].count('callable_returns:list')
        return list
    if r < 0.85:
        CUR['ctx'].count('callable_returns:tuple')
        return tuple
    CUR['ctx'].count('callable_returns:user_sequence')
    return _Seq


def make_pyfunction(rows, n, rng):
    from cirbo.core.python_function import PyFunction
    m = len(rows)

    wrap = seq_flavour(rng)

    def f(args):
        k = 0
        for v in args:
            k = (k << 1) | (1 if v else 0)
        return wrap([bit(r, k) for r in rows])

    if rng.random() < 0.3 and 1 <= n <= 4:
        names = ['a', 'b', 'c', 'd'][:n]
        src = 'def g(%s):\n    return f([%s])\n' % (', '.join(names), ', '.join(names))
        ns = {'f': f}
        exec(src, ns)
        return register(PyFunction.from_positional(ns['g']), n, rows)
    return register(PyFunction(f, n, output_size=(m if rng.random() < 0.5 else None)), n, rows)


def minterm_net(rows, n):
    ins = ['v%d' % i for i in range(n)]
    g = {i: ('INPUT', ()) for i in ins}
    for i in ins:
        g['n_' + i] = ('NOT', (i,))
    outs = []
    for j, r in enumerate(rows):
        terms = []
        for k in range(1 << n):
            if bit(r, k):
                lits = [(ins[i] if inp(k, i, n) else 'n_' + ins[i]) for i in range(n)]
                tl = 't%d_%d' % (j, k)
                g[tl] = ('AND', tuple(lits)) if n >= 2 else ('IFF', (lits[0],))
                terms.append(tl)
        ol = 'o%d' % j
        if not terms:
            g[ol] = ('ALWAYS_FALSE', ())
        elif len(terms) == 1:
            g[ol] = ('IFF', (terms[0],))
        else:
            g[ol] = ('OR', tuple(terms))
        outs.append(ol)
    return refsem.Net(ins, outs, g)


def make_circuit(rows, n, rng):
    net = minterm_net(rows, n)
    with monitor.suspended():
        c = netgen.build(net, rng=rng, shuffle_storage=rng.random() < 0.3)
    return register(c, n, rows)


# ------------------------------------------------------------------ workload

def drive(obj, n, m, rng, light=False):
    """Every protocol query with every index argument."""
    xs = list(itertools.product((False, True), repeat=n))
    for x in (xs if not light else rng.sample(xs, min(4, len(xs)))):
        obj.evaluate(list(x))
        obj.evaluate_at(list(x), rng.randrange(m))
        obj.check(list(x))
        obj.check_at(list(x), rng.randrange(m))
    obj.is_constant()
    obj.is_symmetric()
    obj.is_monotone()
    obj.is_monotone(inverse=True)
    obj.get_truth_table()
    obj.get_model_truth_table()
    for j in range(m):
        obj.is_constant_at(j)
        obj.is_monotone_at(j)
        obj.is_monotone_at(j, inverse=True)
        obj.is_symmetric_at(j)
        obj.get_significant_inputs_of(j)
        for i in range(n):
            obj.is_dependent_on_input_at(j, i)
            obj.is_output_equal_to_input(j, i)
            obj.is_output_equal_to_input_negation(j, i)
    sels = [[j] for j in range(m)] + ([list(range(m))] if m > 1 else [])
    for s in sels:
        obj.find_negations_to_make_symmetric(s)


def invariant_function(rng, n):
    """A function that is invariant under a randomly chosen *subgroup* of the input permutations (rotations, a
    reflection, a pair swap, products of these) and under nothing else in particular: a union of orbits of that group
    on the assignments.  The hard negatives (and positives) of the symmetry / dependence queries live here."""
    gens = []
    kinds = rng.sample(['rotate', 'reflect', 'swap', 'swap2', 'random'], rng.randint(1, 2))
    for kd in kinds:
        p_ = list(range(n))
        if kd == 'rotate':
            r_ = rng.randint(1, max(1, n - 1))
            p_ = [(i + r_) % n for i in range(n)]
        elif kd == 'reflect':
            p_ = list(reversed(p_))
        elif kd in ('swap', 'swap2') and n >= 2:
            a_, b_ = rng.sample(range(n), 2)
            p_[a_], p_[b_] = p_[b_], p_[a_]
        else:
            rng.shuffle(p_)
        gens.append(p_)
    seen = {}
    orbits = []
    for k in range(1 << n):
        if k in seen:
            continue
        orb = {k}
        stack = [k]
        while stack:
            x = stack.pop()
            bits = [inp(x, i, n) for i in range(n)]
            for p_ in gens:
                nb = [bits[p_[i]] for i in range(n)]
                y = 0
                for i in range(n):
                    y = (y << 1) | (1 if nb[i] else 0)
                if y not in orb:
                    orb.add(y)
                    stack.append(y)
        for x in orb:
            seen[x] = len(orbits)
        orbits.append(orb)
    row = 0
    for orb in orbits:
        if rng.random() < 0.5:
            for x in orb:
                row |= 1 << x
    return row


def repurpose(c, n, rows, rng):
    """Edit a circuit that has already been queried, in place and through public calls, so that every label stays
    but one output computes the complement (remove the unused output gate, emplace it again under the same label with
    the complementary type, restore the output list).  Returns the new rows."""
    from cirbo.core.circuit import gate as G
    gt = netgen.gate_type_by_name()
    m = len(rows)
    j = m - 1 if rng.random() < 0.5 else rng.randrange(m)
    with monitor.suspended():
        outs = list(c.outputs)
        ol = outs[j]
        if outs.count(ol) != 1 or c.get_gate_users(ol):
            return None
        g = c.get_gate(ol)
        t, ops = g.gate_type.name, tuple(g.operands)
        comp = {'OR': 'NOR', 'IFF': 'NOT', 'ALWAYS_FALSE': 'ALWAYS_TRUE'}.get(t)
        if comp is None:
            return None
        c.remove_gate(ol)
        c.emplace_gate(ol, gt[comp], ops)
        c.set_outputs(outs)
    new_rows = list(rows)
    new_rows[j] = rows[j] ^ ((1 << (1 << n)) - 1)
    return new_rows


def dup_rename(c, n, rows, rng):
    """Mark one output gate as output a second (third) time, then rename that gate: every output position must follow."""
    m = len(rows)
    j = rng.randrange(m)
    with monitor.suspended():
        outs = list(c.outputs)
        ol = outs[j]
        extra = rng.randint(1, 2)
        new_outs = outs + [ol] * extra
        if rng.random() < 0.5:
            new_outs = [ol] + outs
            new_rows = [rows[j]] + list(rows)
        else:
            new_rows = list(rows) + [rows[j]] * extra
        c.set_outputs(new_outs)
        nl = 'renamed_' + ol
        if c.has_gate(nl):
            return None
        c.rename_gate(ol, nl)
    return new_rows


def _drive_all(rows, n, r2, ctx, case):
    m = len(rows)
    for make, nm in ((make_truth_table, 'TruthTable'), (make_pyfunction, 'PyFunction'), (make_circuit, 'Circuit')):
        try:
            obj = make(rows, n, r2)
            drive(obj, n, m, r2)
            if nm == 'Circuit' and r2.random() < 0.5:
                # query - edit under the same labels - query again: answers must follow the object's current state
                if r2.random() < 0.3:
                    # a copy is taken and edited (outputs marked, an output gate renamed, a gate added); the original must go
                    # on answering for the original function
                    import copy as _copy
                    with monitor.suspended():
                        cp = _copy.copy(obj)
                        outs_ = list(cp.outputs)
                        if outs_:
                            cp.mark_as_output(outs_[0])
                            if not cp.has_gate('cp_renamed'):
                                cp.rename_gate(outs_[-1], 'cp_renamed')
                        some = list(cp.gates)
                        if some and not cp.has_gate('cp_extra'):
                            from cirbo.core.circuit import gate as _G
                            cp.emplace_gate('cp_extra', _G.NOT, (some[0],))
                            cp.mark_as_output('cp_extra')
                    ctx.count('copy_edited_original_requeried')
                    drive(obj, n, m, r2, light=True)
                rows2 = repurpose(obj, n, rows, r2) if r2.random() < 0.6 else dup_rename(obj, n, rows, r2)
                if rows2 is not None:
                    register(obj, n, rows2)
                    ctx.count('requeried_after_edit')
                    drive(obj, n, len(rows2), r2)
        except Exception as e:
            ctx.unexpected(nm + ' protocol', e, case)


def check_table(rows, n, ctx, rng, light_circuit=False):
    m = len(rows)
    case = {'kind': 'table', 'n': n, 'rows': [int(r) for r in rows], 'rseed': rng.getrandbits(32)}
    CUR['case'] = case
    r2 = random.Random(case['rseed'])
    nontrivial = not all(d_constant(r, n) for r in rows)
    _drive_all(rows, n, r2, ctx, case)
    REG.clear()
    ctx.case('n%d:%r' % (n, case['rows']), nontrivial, cls='space:n=%d,m=%d' % (n, m),
             sample={'n': n, 'rows': [format(r, '0%db' % (1 << n))[::-1] for r in rows]} if nontrivial else None)


def replay_table(case, ctx):
    rng = random.Random(0)
    rows, n = case['rows'], case['n']
    CUR['case'] = case
    r2 = random.Random(case['rseed'])
    _drive_all(rows, n, r2, ctx, case)
    REG.clear()


def check_extras(case, ctx):
    """Random-circuit representation, model completion, integer wrappers."""
    from cirbo.core.logic import DontCare
    from cirbo.core.python_function import PyFunction, PyFunctionModel
    from cirbo.core.truth_table import TruthTable, TruthTableModel
    CUR['case'] = case
    rng = random.Random(case['rseed'])
    kind = case['sub']

    def V(api, disc, msg):
        ctx.violation(api, 'wrong_result', disc, msg, case)

    if kind == 'random_circuit':
        net = netgen.from_description(case['net'])
        n = len(net.inputs)
        rows, ns = refsem.output_ints(net)
        if not rows:
            return
        with monitor.suspended():
            c = netgen.build(net, rng=rng, shuffle_storage=rng.random() < 0.3)
        register(c, n, rows)
        try:
            drive(c, n, len(rows), rng)
        except Exception as e:
            ctx.unexpected('Circuit protocol', e, case)
        # the other two representations from the circuit's own table, three-way agreement by transitivity
        try:
            drive(make_truth_table(rows, n, rng), n, len(rows), rng)
            drive(make_pyfunction(rows, n, rng), n, len(rows), rng)
        except Exception as e:
            ctx.unexpected('protocol', e, case)
        REG.clear()
        ctx.case('rc:%s' % refsem.structural_hash(net), not all(d_constant(r, n) for r in rows), cls='extras:random_circuit')
        return
    if kind == 'define':
        n, m = case['n'], case['m']
        rows = case['rows']
        dc = [set(x) for x in case['dc']]           # per output: indices that are don't-care
        fill = case['fill']                          # per output: int with the values for dc positions
        model_tab = [[(DontCare if k in dc[j] else bit(rows[j], k)) for k in range(1 << n)] for j in range(m)]
        definition = {}
        for j in range(m):
            for k in dc[j]:
                x = tuple(inp(k, i, n) for i in range(n))
                definition[(x, j)] = bit(fill[j], k)
        if case.get('extra_consistent'):
            for j in range(m):
                for k in range(1 << n):
                    if k not in dc[j] and rng.random() < 0.3:
                        definition[(tuple(inp(k, i, n) for i in range(n)), j)] = bit(rows[j], k)
        if case.get('extra_any'):
            # a definition written out for more cells than the model leaves open (e.g. a whole reference function used
            # as the definition): where the model is defined the model rules - "agrees with the model wherever it was
            # defined and with the supplied definition elsewhere"
            ctx.count('define:overcomplete_definition')
            for j in range(m):
                for k in range(1 << n):
                    if k not in dc[j] and rng.random() < 0.4:
                        definition[(tuple(inp(k, i, n) for i in range(n)), j)] = rng.random() < 0.5
        want = []
        for j in range(m):
            r = 0
            for k in range(1 << n):
                v = bit(fill[j], k) if k in dc[j] else bit(rows[j], k)
                if v:
                    r |= 1 << k
            want.append(r)
        wl = rows_to_lists(want, n)
        # TruthTableModel
        try:
            style = rng.random()
            tab = model_tab if style < 0.5 else [''.join('*' if v == DontCare else ('1' if v else '0') for v in r) for r in model_tab]
            tm = TruthTableModel(tab)
            # model queries
            for k in range(1 << n):
                x = [inp(k, i, n) for i in range(n)]
                got = list(tm.check(x))
                if got != [model_tab[j][k] for j in range(m)]:
                    V('TruthTableModel.check', 'definition', 'check(%r) = %r' % (x, got))
                j = rng.randrange(m)
                if tm.check_at(x, j) != model_tab[j][k]:
                    V('TruthTableModel.check_at', 'definition', 'check_at(%r, %d)' % (x, j))
            ctx.count('model:check')
            if [list(r) for r in tm.get_model_truth_table()] != model_tab:
                V('TruthTableModel.get_model_truth_table', 'definition', 'model table differs')
            f = tm.define(dict(definition))
            ctx.count('define:TruthTableModel')
            if [list(r) for r in f.get_truth_table()] != wl:
                V('TruthTableModel.define', 'completion', 'defined function has table %r, expected %r' % (f.get_truth_table(), wl))
            if [list(r) for r in tm.get_model_truth_table()] != model_tab:
                V('TruthTableModel.define', 'model_modified', 'define modified the model')
            # the completed function is a function like any other: the whole protocol is asked of it
            drive(register(f, n, want), n, m, rng)
        except Exception as e:
            ctx.unexpected('TruthTableModel.define', e, case)
        # PyFunctionModel
        try:
            wrap = seq_flavour(rng)

            def mf(args):
                k = 0
                for v in args:
                    k = (k << 1) | (1 if v else 0)
                return wrap([model_tab[j][k] for j in range(m)])

            pm = PyFunctionModel(mf, n, output_size=(m if rng.random() < 0.5 else None))
            if [list(r) for r in pm.get_model_truth_table()] != model_tab:
                V('PyFunctionModel.get_model_truth_table', 'definition', 'model table differs')
            k = rng.randrange(1 << n)
            x = [inp(k, i, n) for i in range(n)]
            if list(pm.check(x)) != [model_tab[j][k] for j in range(m)] or pm.check_at(x, 0) != model_tab[0][k]:
                V('PyFunctionModel.check', 'definition', 'check(%r)' % (x,))
            f = pm.define(dict(definition))
            ctx.count('define:PyFunctionModel')
            if [list(r) for r in f.get_truth_table()] != wl:
                V('PyFunctionModel.define', 'completion', 'defined function has table %r, expected %r' % (f.get_truth_table(), wl))
            for k in range(1 << n):
                x = [inp(k, i, n) for i in range(n)]
                if list(f.evaluate(x)) != [wl[j][k] for j in range(m)]:
                    V('PyFunctionModel.define', 'completion', 'defined function evaluates %r at %r' % (f.evaluate(x), x))
                    break
            drive(register(f, n, want), n, m, rng)
            ctx.count('completed_function_driven')
        except Exception as e:
            ctx.unexpected('PyFunctionModel.define', e, case)
        # Function.define on complete functions: empty definition returns an equal function, non-empty is rejected
        try:
            from cirbo.core.exceptions import BadDefinitionError
            for obj in (make_truth_table(want, n, rng), make_pyfunction(want, n, rng), make_circuit(want, n, rng)):
                g = obj.define({})
                if [list(r) for r in g.get_truth_table()] != wl:
                    V('Function.define', 'completion', 'define({}) changed the function')
                try:
                    obj.define({(tuple([False] * n), 0): True})
                    V('Function.define', 'accepted_definition', 'a non-empty definition of a complete function was accepted')
                except BadDefinitionError:
                    pass
            ctx.count('define:Function')
        except Exception as e:
            ctx.unexpected('Function.define', e, case)
        REG.clear()
        ctx.case('define:%r:%r:%r' % (rows, case['dc'], fill), any(dc), cls='extras:define')
        return
    if kind == 'intwrap':
        from cirbo.core.python_function import PyFunction
        a, b, out_len, big = case['a'], case['b'], case['out_len'], case['big']
        n = case['in_len']
        r3 = random.Random(case.get('rseed', 0))

        def to_bits(val, width):
            return [bool((val >> ((width - 1 - i) if big else i)) & 1) for i in range(width)]

        def values(width, k):
            if width <= 4:
                return list(range(1 << width))
            top = (1 << width) - 1
            vs = [0, 1, top, top - 1, 1 << (width - 1), (1 << (width - 1)) - 1, 0x5555555555555555555555 & top, 0xAAAAAAAAAAAAAAAAAAAAAA & top]
            return vs + [r3.getrandbits(width) for _ in range(k)]

        try:
            if case['arity'] == 1:
                fn = lambda v: (v * a + b) % (1 << out_len)
                pf = PyFunction.from_int_unary_func(fn, n, out_len, big_endian=big)
                for val in values(n, 24):
                    bits = to_bits(val, n)   # bits[0] is the first argument bit
                    want = to_bits(fn(val), out_len)
                    got = list(pf.evaluate(bits))
                    if got != want:
                        V('PyFunction.from_int_unary_func', 'bit_order', 'f(%d) with big_endian=%r, widths %d->%d: got %r, expected %r' % (
                            val, big, n, out_len, got[:70], want[:70]))
                        break
                ctx.count('intwrap:unary')
                if pf.input_size != n or pf.output_size != out_len:
                    V('PyFunction.from_int_unary_func', 'shape', 'sizes %d/%d' % (pf.input_size, pf.output_size))
            else:
                fn = lambda u, v: (u * a + v + b + (u * v if case.get('mul') else 0)) % (1 << out_len)
                pf = PyFunction.from_int_binary_func(fn, n, out_len, big_endian=big)
                us, vs_ = values(n, 6), values(n, 6)
                pairs = [(u, v) for u in us for v in vs_] if n <= 4 else [(u, v) for u in us[:10] for v in vs_[:10]] + list(zip(us, reversed(vs_)))
                for u, v in pairs:
                    bits = to_bits(u, n) + to_bits(v, n)
                    want = to_bits(fn(u, v), out_len)
                    got = list(pf.evaluate(bits))
                    if got != want:
                        V('PyFunction.from_int_binary_func', 'bit_order', 'f(%d,%d) big_endian=%r, widths %d->%d: got %r, expected %r' % (
                            u, v, big, n, out_len, got[:70], want[:70]))
                        break
                ctx.count('intwrap:binary')
            if n > 4 or out_len > 53:
                ctx.count('intwrap:wide')
        except Exception as e:
            ctx.unexpected('PyFunction.from_int_*_func', e, case)
        ctx.case('intwrap:%r' % sorted(case.items()), True, cls='extras:intwrap')


def gen_extra(rng):
    r = rng.random()
    if r < 0.12:
        # outputs that are single gates sitting directly on the inputs, operands drawn with repetition (any arity): the
        # shapes for which a structural shortcut of a query is most tempting
        n = rng.randint(1, 4)
        ins = ['x%d' % i for i in range(n)]
        g = {i: ('INPUT', ()) for i in ins}
        outs = []
        for k in range(rng.randint(1, 3)):
            t = rng.choice(['XOR', 'NXOR', 'AND', 'OR', 'NAND', 'NOR', 'XOR', 'NXOR', 'GT', 'LEQ', 'LNOT', 'RIFF'])
            ar = 2 if t in ('GT', 'LEQ', 'LNOT', 'RIFF') else rng.randint(2, 6)
            ops = [rng.choice(ins) for _ in range(ar)]
            if rng.random() < 0.6:
                ops = (ins + ops)[:max(ar, n)] if t not in ('GT', 'LEQ', 'LNOT', 'RIFF') else ops
                rng.shuffle(ops)
            g['s%d' % k] = (t, tuple(ops))
            outs.append('s%d' % k)
        net = refsem.Net(ins, outs, g)
        return {'kind': 'extras', 'sub': 'random_circuit', 'net': netgen.describe(net), 'rseed': rng.getrandbits(32)}
    if r < 0.35:
        net = netgen.rand_net(rng, max_in=4, min_in=1, max_g=8, n_out=rng.randint(1, 3), allow_repeat_outputs=True,
                              p_repeat_operand=0.3 if rng.random() < 0.4 else None, max_arity=5)
        return {'kind': 'extras', 'sub': 'random_circuit', 'net': netgen.describe(net), 'rseed': rng.getrandbits(32)}
    if r < 0.75:
        n = rng.randint(1, 3)
        m = rng.randint(1, 2)
        rows = [rng.getrandbits(1 << n) for _ in range(m)]
        dens = rng.choice([0.0, 0.2, 0.5, 0.8, 1.0])
        dc = [sorted(k for k in range(1 << n) if rng.random() < dens) for _ in range(m)]
        fill = [rng.getrandbits(1 << n) for _ in range(m)]
        return {'kind': 'extras', 'sub': 'define', 'n': n, 'm': m, 'rows': rows, 'dc': dc, 'fill': fill,
                'extra_consistent': rng.random() < 0.3, 'extra_any': rng.random() < 0.25, 'rseed': rng.getrandbits(32)}
    if rng.random() < 0.35:
        # machine-word sized wrappers (sampled operands): results beyond 2^53 included
        n = rng.choice([5, 8, 16, 24, 27, 31, 32, 33, 53, 54, 64])
        return {'kind': 'extras', 'sub': 'intwrap', 'arity': rng.choice([1, 2]), 'in_len': n,
                'out_len': rng.choice([n, n + 1, 2 * n, 2 * n, 64, 128]), 'big': rng.random() < 0.5,
                'a': rng.choice([1, 3, (1 << n) - 1, rng.getrandbits(n) | 1]), 'b': rng.getrandbits(n), 'mul': rng.random() < 0.5,
                'rseed': rng.getrandbits(32)}
    return {'kind': 'extras', 'sub': 'intwrap', 'arity': rng.choice([1, 2]), 'in_len': rng.randint(1, 3),
            'out_len': rng.randint(1, 5), 'big': rng.random() < 0.5, 'a': rng.randint(1, 7), 'b': rng.randint(0, 9),
            'rseed': rng.getrandbits(32)}


def run_shard(spec, ctx):
    install(ctx)
    rng = ctx.rng
    if spec['kind'] == 'space':
        m = spec['m']
        done_all = True
        for n in spec['n']:
            space = 1 << (1 << n)
            idx = 0
            for rows in itertools.product(range(space), repeat=m):
                idx += 1
                if idx % spec['parts'] != spec['part']:
                    continue
                if ctx.out_of_time():
                    done_all = False
                    ctx.count('stopped_on_budget')
                    break
                check_table(list(rows), n, ctx, rng)
        if done_all:
            ctx.info['parts_done:n=%s,m=%d' % (','.join(map(str, spec['n'])), m)] = 1
            ctx.info['parts_total:n=%s,m=%d' % (','.join(map(str, spec['n'])), m)] = 1.0 / spec['parts']
    elif spec['kind'] == 'sample':
        n, m = spec['n'], spec['m']
        for _ in range(spec['count']):
            if ctx.out_of_time():
                ctx.count('stopped_on_budget')
                break
            if spec.get('invariant'):
                rows = [invariant_function(rng, n) for _ in range(m)]
                ctx.count('group_invariant_functions')
            else:
                rows = [rng.getrandbits(1 << n) for _ in range(m)]
            check_table(rows, n, ctx, rng)
    else:
        for _ in range(spec['count']):
            if ctx.out_of_time():
                ctx.count('stopped_on_budget')
                break
            check_extras(gen_extra(rng), ctx)


def replay(case, ctx):
    install(ctx)
    if case.get('kind') == 'table':
        replay_table(case, ctx)
    else:
        check_extras(case, ctx)
