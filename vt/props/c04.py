"""C04 - SAT-based subcircuit minimisation returns an equivalent, not larger circuit.

Post-condition monitor on the real minimize_subcircuits (interface, reference
truth table, non-trivial gate count, well-formedness, no FailedValidationError,
no internal error on circuits without functionally equivalent gates) under the
cut-enumerator stand-in (policies: faithful / shuffled / pruned /
inputs_omitted), the z3-backed solver stand-in and several hash seeds; a
sys.monitoring branch trace of subcircuit.py attributes each outcome to the
branch that handled the cones."""
from __future__ import annotations

import copy
import random
import sys

from vt import monitor, netgen, refsem, wf

ID = 'C04'
LEVEL = 'exploration'
RULE = ('random circuits over the supported gate set (NOT and the ten binary AND/OR/XOR/NAND/NOR/NXOR/GT/LT/GEQ/LEQ), 2..6 '
        'inputs, 2..14 gates, 1..3 outputs (shared NOTs, reconvergence, outputs with fan-out, dead gates), adder compositions '
        'from the tutorial; bases AIG/XAIG/FULL as enum and string; max_subcircuit_size, cut_size, cut_limit, '
        'solver_time_limit_sec in {0, small}, enable_validation; cut-family policies faithful/shuffled/pruned/inputs_omitted; '
        'every case stream is run under 4 PYTHONHASHSEED values.  distinct = (structural hash, parameters, policy, hash seed); '
        'non-trivial = at least one cone reached the synthesis or the trivial-outputs branch.')
ANCHOR_FILES = ['cirbo/minimization/subcircuit.py', 'cirbo/core/circuit/circuit.py', 'cirbo/synthesis/circuit_search.py']
ASSUMPTIONS = ['mockturtle and python-sat are absent: cut families come from vt/shims/mockturtle_wrapper.py (every supplied cut is a '
               'genuine cut; validated against the expected value in the repository\'s own mockturtle test), the solver is the '
               'self-checking z3 stand-in', 'vt.refsem; vt.wf']
SUPPORTED = ['NOT', 'AND', 'OR', 'XOR', 'NAND', 'NOR', 'NXOR', 'GT', 'LT', 'GEQ', 'LEQ']
REQUIRED = {'mon:minimize_subcircuits.checked': 60, 'synth:returned': 10, 'shrunk': 10, 'policy:faithful': 10, 'policy:shuffled': 10, 'policy:pruned': 10,
            'policy:inputs_omitted': 5, 'validation_enabled': 10, 'no_equivalent_gates': 20, 'shim_selftest_ok': 1, 'wide_inputs_cases': 2, 'big_cut_size_cases': 8,
            'hazard_shape_cases': 40, 'branch:cyclic': 1}

CUR = {'ctx': None, 'case': None, 'trace': None}


def shards(tier, seed):
    per = 60 if tier == 'quick' else 2500
    budget = 55 if tier == 'quick' else 570
    out = []
    for stream in range(4):
        for hs in (0, 1, 2, 3):
            out.append({'kind': 'random', 'count': per, 'budget_s': budget, 'stream': stream, 'hashseed': str(hs + 10 * stream)})
    # circuits with more primary inputs than brute-force test sizes (the pass simulates all 2^n assignments itself)
    wide = [[17], [18]] if tier == 'quick' else [[13, 14, 15, 16, 17] * 3, [17, 18] * 4, [19, 17, 18], [16, 17, 18, 15] * 3]
    for k in range(4):
        out.append({'kind': 'bigcut', 'count': 6 if tier == 'quick' else 400, 'budget_s': budget, 'stream': 200 + k,
                    'hashseed': str(k)})
    # the shapes where cut rewriting is known to be delicate (non-convex regions, inverter-terminated cones, stacked
    # redundancy) get shards of their own on top of their share of the random stream
    for k in range(4):
        out.append({'kind': 'hazard', 'count': 60 if tier == 'quick' else 2500, 'budget_s': budget, 'stream': 300 + k,
                    'hashseed': str(5 + 3 * k)})
    for k, ns in enumerate(wide):
        out.append({'kind': 'wide', 'n_in': ns, 'count': len(ns), 'budget_s': budget, 'stream': 100 + k, 'hashseed': str(k)})
    return out


# ------------------------------------------------------------------ branch trace (sys.monitoring on subcircuit.py)

MARKERS = {
    'all_trivial': 'logger.debug("All outputs have trivial input patterns")',
    'no_solution': 'logger.debug("Smaller subcircuit not found")',
    'timeout': 'logger.debug("Lower subcircuit search is out of time")',
    'synthesis_found': 'input_labels_mapping: dict[Label, Label] = {}',
    'cyclic': "logger.debug(\"Subcircuit can't be replaced (e.g. circuit becomes cyclic)\")",
    'improved': 'logger.debug("Improved circuit size")',
    'negated_trivial_output': 'negated_leaf = outputs_negation_mapping[output]',
    'mixed_trivial': 'logger.debug("Some outputs have trivial patterns, subcircuit is skipped")',
}


class BranchTrace:
    TOOL = 4

    def __init__(self):
        import cirbo.minimization.subcircuit as sc
        self.file = sc.__file__
        self.lines = {}
        src = open(self.file).read().split('\n')
        for name, text in MARKERS.items():
            for i, l in enumerate(src):
                if text in l:
                    self.lines[i + 1] = name
        self.missing = [n for n in MARKERS if n not in self.lines.values()]
        self.events = []
        self.on = False

    def start(self):
        mon = sys.monitoring
        try:
            mon.use_tool_id(self.TOOL, 'vt-c04')
        except ValueError:
            return
        lines, events, file = self.lines, self.events, self.file

        def on_line(code, line):
            if code.co_filename != file:
                return mon.DISABLE
            name = lines.get(line)
            if name is None:
                return mon.DISABLE
            events.append(name)
            return None

        mon.register_callback(self.TOOL, mon.events.LINE, on_line)
        mon.set_events(self.TOOL, mon.events.LINE)
        self.on = True

    def reset(self):
        del self.events[:]
        if self.on:
            sys.monitoring.restart_events()


# ------------------------------------------------------------------ monitor

def _has_equivalent_gates(net):
    if len(net.inputs) > 10:
        return None
    vals, ns = refsem.truth_tables(net)
    seen = set()
    for l in net.gates:
        if vals[l] in seen:
            return True
        seen.add(vals[l])
    return False


def nontrivial_count(net):
    return sum(1 for t, _ in net.gates.values() if t not in ('INPUT', 'NOT', 'LNOT', 'RNOT', 'IFF', 'LIFF', 'RIFF',
                                                              'ALWAYS_TRUE', 'ALWAYS_FALSE'))


@monitor.outer_only
def pre_min(args, kwargs):
    c = args[0] if args else kwargs['circuit']
    with monitor.suspended():
        clean = not wf.errors(c, check_copy=False)
    net = refsem.net_of(c)
    supported = all(t == 'INPUT' or (t in SUPPORTED and len(o) == (1 if t == 'NOT' else 2)) for t, o in net.gates.values())
    tr = CUR['trace']
    if tr is not None:
        tr.reset()
    return {'clean': clean, 'net': net, 'supported': supported, 'equiv': _has_equivalent_gates(net) if clean else None}


def _branch_summary():
    tr = CUR['trace']
    if tr is None:
        return {}
    d = {}
    for e in tr.events:
        d[e] = d.get(e, 0) + 1
    return d


@monitor.outer_only
def post_min(st, args, kwargs, result):
    ctx = CUR['ctx']
    if not st['clean'] or not st['supported']:
        ctx.mon('minimize_subcircuits', 'skipped_domain')
        return
    ctx.mon('minimize_subcircuits')
    br = _branch_summary()
    for k, v in br.items():
        ctx.count('branch:' + k, v)
    a = st['net']
    case = dict(CUR['case'] or {}, branches=br)

    def V(disc, msg, kind='wrong_result'):
        ctx.violation('minimize_subcircuits', kind, disc, msg + ' [branches: %r]' % (br,), case,
                      extra={'hashseed': (CUR['case'] or {}).get('hashseed', '0')})

    with monitor.suspended():
        errs = wf.errors(result, check_copy=False)
    if errs:
        V('not_wf:' + errs[0].split(' ')[0].split('(')[0], '; '.join(errs[:3]), kind='invariant')
        return
    r = refsem.net_of(result)
    if r.inputs != a.inputs:
        V('inputs', 'inputs %r became %r' % (a.inputs, r.inputs))
        return
    if len(r.outputs) != len(a.outputs):
        V('output_count', '%d outputs became %d' % (len(a.outputs), len(r.outputs)))
        return
    ta, ns = refsem.output_ints(a)
    try:
        tr_, _ = refsem.output_ints(r)
    except (KeyError, RecursionError) as e:
        V('result_not_evaluable', repr(e))
        return
    if ta != tr_:
        disc = 'function_changed'
        if br.get('all_trivial') and br.get('negated_trivial_output'):
            disc = 'function_changed/all_trivial_branch'
        V(disc, 'truth table changed: %s -> %s' % (refsem.fmt_tt(ta), refsem.fmt_tt(tr_)))
        return
    na, nr = nontrivial_count(a), nontrivial_count(r)
    if nr > na:
        V('grew', 'non-trivial gates %d -> %d' % (na, nr))
        return
    if nr < na:
        ctx.count('shrunk')
    CUR['last_nontrivial'] = bool(br.get('synthesis_found') or br.get('all_trivial') or br.get('no_solution')) or nr < na


def raise_min(st, args, kwargs, exc):
    from cirbo.minimization.exception import FailedValidationError, UnsupportedOperationError
    ctx = CUR['ctx']
    if st is None or not st['clean']:
        return
    br = _branch_summary()
    for k, v in br.items():
        ctx.count('branch:' + k, v)
    case = dict(CUR['case'] or {}, branches=br)
    extra = {'hashseed': (CUR['case'] or {}).get('hashseed', '0')}
    if isinstance(exc, UnsupportedOperationError):
        if st['supported']:
            ctx.violation('minimize_subcircuits', 'exception', 'UnsupportedOperationError_on_supported_set',
                          'circuit over the supported gate set rejected', case, extra=extra)
        else:
            ctx.mon('minimize_subcircuits', 'unsupported_rejected')
        return
    if not st['supported']:
        ctx.mon('minimize_subcircuits', 'skipped_domain')
        return
    ctx.mon('minimize_subcircuits')
    if isinstance(exc, FailedValidationError):
        ctx.violation('minimize_subcircuits', 'exception', 'FailedValidationError',
                      'validation reported a non-equivalent result [branches: %r]' % (br,), case, extra=extra)
        return
    if st['equiv'] is False:
        import traceback
        tb = traceback.extract_tb(exc.__traceback__)
        where = ''
        for fr in reversed(tb):
            if '/cirbo/' in fr.filename:
                where = '%s:%s' % (fr.filename.split('/cirbo/', 1)[1], fr.name)
                break
        marks = '+'.join(sorted(k for k in br if k in ('all_trivial', 'mixed_trivial', 'negated_trivial_output')))
        ctx.violation('minimize_subcircuits', 'exception', 'internal:%s@%s|%s' % (type(exc).__name__, where, marks),
                      'internal error on a circuit without functionally equivalent gates: %r [branches: %r]' % (exc, br), case,
                      extra=dict(extra, traceback=''.join(traceback.format_exception(exc))[-2500:]))
    else:
        ctx.count('error_with_equivalent_gates:' + type(exc).__name__)


def install(ctx):
    import importlib
    CUR['ctx'] = ctx
    sc = importlib.import_module('cirbo.minimization.subcircuit')
    w = monitor.attach(sc, 'minimize_subcircuits', pre=pre_min, post=post_min, on_raise=raise_min,
                       counter=ctx.moncounter('minimize_subcircuits'))
    import cirbo.minimization as mini
    if getattr(mini, 'minimize_subcircuits', None) is not None:
        orig = mini.minimize_subcircuits
        mini.minimize_subcircuits = w
        monitor._installed.append((mini, 'minimize_subcircuits', orig))
    tr = BranchTrace()
    if tr.missing:
        # attribution by source markers is a convenience only: without them every violation is still reported
        ctx.info['branch_markers_missing'] = ','.join(tr.missing)
    tr.start()
    CUR['trace'] = tr
    # reach counters that do not depend on source text: outcomes of the synthesis calls made by the function
    from cirbo.synthesis.circuit_search import CircuitFinderSat

    def post_find(st_, args, kwargs, result):
        if monitor._depth >= 2:
            ctx.count('synth:returned')

    def raise_find(st_, args, kwargs, exc):
        if monitor._depth >= 2:
            ctx.count('synth:' + type(exc).__name__)

    w = monitor.attach(CircuitFinderSat, 'find_circuit', post=post_find)
    shim_selftest(ctx)


def shim_selftest(ctx):
    """The stand-in must reproduce (as sets of cuts per node) the expected value of the repository's own mockturtle test."""
    import mockturtle_wrapper as mw
    from cirbo.core.circuit import Circuit
    from cirbo.core.circuit.gate import AND, Gate, INPUT, NOT, OR, XOR
    old = mw.POLICY
    mw.POLICY = 'faithful'
    try:
        with monitor.suspended():
            c = Circuit()
            for l in 'ABC':
                c.add_gate(Gate(l, INPUT))
            c.add_gate(Gate('D', NOT, ('A',)))
            c.add_gate(Gate('E', AND, ('B', 'D')))
            c.add_gate(Gate('F', OR, ('A', 'C')))
            c.add_gate(Gate('G', XOR, ('E', 'F')))
            c.mark_as_output('G')
            got = mw.enumerate_cuts(c.format_circuit(), 5, 50, 10000)
        exp = {'A': [['A']], 'B': [['B']], 'C': [['C']], 'D': [['A'], ['D']], 'E': [['B', 'D'], ['A', 'B'], ['E']],
               'F': [['A', 'C'], ['F']],
               'G': [['E', 'F'], ['A', 'C', 'E'], ['A', 'B', 'F'], ['A', 'B', 'C'], ['B', 'D', 'F'], ['G']]}
        if {k: sorted(map(tuple, v)) for k, v in got.items()} == {k: sorted(map(tuple, v)) for k, v in exp.items()}:
            ctx.count('shim_selftest_ok')
        else:
            ctx.note_inconclusive('cut-enumerator stand-in disagrees with the repository\'s expected cuts')
    finally:
        mw.POLICY = old


# ------------------------------------------------------------------ workload

HAZARD_SHAPES = ['loopback', 'loopback', 'loopback', 'inverters', 'reconv', 'towers']


def gen_net(rng, n_in=None, shapes=None):
    r = rng.random()
    if r < 0.12 and n_in is None and shapes is None:
        return 'adder', None
    n_in = n_in or rng.randint(2, 6)
    shape = rng.choice(shapes or ['random', 'diamond', 'chain', 'wide', 'dups', 'unary', 'reconv', 'reconv', 'towers', 'loopback', 'loopback', 'inverters'])
    if shape == 'loopback':
        return shape, loopback_net(rng, n_in)
    if shape == 'inverters':
        return shape, inverters_net(rng, n_in)
    net = netgen.rand_net(rng, n_in=n_in, n_g=rng.randint(2, 14), shape='random' if shape == 'reconv' else shape, types=SUPPORTED,
                          max_arity=2, n_out=rng.randint(1, 3), const_operands=False, allow_input_outputs=rng.random() < 0.2,
                          allow_repeat_outputs=rng.random() < 0.2, p_repeat_operand=0.03)
    if shape == 'reconv':
        net = add_reconvergence(net, rng)
    if shape == 'towers':
        net = add_redundancy_towers(net, rng)
    return shape, net


def loopback_net(rng, n_in):
    """A region that is not convex: a gate o over two signals, a path of one to three gates that leaves the region from o
    (each step mixing in a fresh signal) and comes back as w, and a handful of gates over {o's operands, o, w}.  The cone
    of the last gates then has a cut in which the leaf w depends on the cone's own gate o (o has a user outside) - a
    replacement that computes o from w would close a loop, the textbook hazard of cut rewriting."""
    n_in = max(4, n_in or rng.randint(4, 6))
    ins = ['x%d' % i for i in range(n_in)]
    g = {l: ('INPUT', ()) for l in ins}
    bin_t = [t for t in SUPPORTED if t != 'NOT']
    p, q = rng.sample(ins, 2)
    side = [l for l in ins if l not in (p, q)]
    g['o'] = (rng.choice(bin_t), (p, q))
    prev = 'o'
    for j in range(rng.randint(1, 3)):
        l = 'v%d' % j
        ops = [prev, rng.choice(side)]
        rng.shuffle(ops)
        g[l] = (rng.choice(bin_t), tuple(ops))
        prev = l
    w = prev
    pool = [p, q, 'o', w]
    made = []
    for j in range(rng.randint(2, 5)):
        l = 'u%d' % j
        a = rng.choice(made) if made and rng.random() < 0.5 else rng.choice(pool)
        b = rng.choice(pool + made[-1:])
        if rng.random() < 0.15:
            g[l] = ('NOT', (a,))
        else:
            g[l] = (rng.choice(bin_t), (a, b))
        made.append(l)
    outs = [made[-1]] + [m for m in made[:-1] if rng.random() < 0.4]
    if rng.random() < 0.3:
        outs.append(w)
    return refsem.Net(ins, outs, g)


def inverters_net(rng, n_in):
    """Inverter-terminated cones: a few two-input gates over two or three signals, several of them followed by a NOT
    that is what the rest of the circuit (or the interface) uses.  NOT gates are free in the size measure, so cones whose
    outputs are inverters are where size accounting and output re-creation meet."""
    n_in = max(2, n_in or rng.randint(2, 5))
    ins = ['x%d' % i for i in range(n_in)]
    g = {l: ('INPUT', ()) for l in ins}
    bin_t = [t for t in SUPPORTED if t != 'NOT']
    base = rng.sample(ins, min(len(ins), rng.randint(2, 3)))
    core = []
    for j in range(rng.randint(2, 4)):
        l = 'k%d' % j
        a, b = rng.sample(base, 2) if rng.random() < 0.8 or not core else (rng.choice(core), rng.choice(base))
        g[l] = (rng.choice(bin_t), (a, b))
        core.append(l)
    inv = []
    for j, l in enumerate(core):
        if rng.random() < 0.75:
            g['n%d' % j] = ('NOT', (l,))
            inv.append('n%d' % j)
    outs = list(inv) or [core[-1]]
    rest = [l for l in ins if l not in base]
    for j in range(rng.randint(0, 2)):
        if not inv:
            break
        l = 'd%d' % j
        g[l] = (rng.choice(bin_t), (rng.choice(inv), rng.choice(rest or inv + core)))
        outs.append(l)
        hidden = [o for o in outs if o in inv]
        if hidden and len(outs) > 1 and rng.random() < 0.25:
            outs.remove(rng.choice(hidden))      # an inverter that only the rest of the circuit reads
    rng.shuffle(outs)
    return refsem.Net(ins, outs, g)


def add_redundancy_towers(net, rng):
    """Redundancy stacked on redundancy: a signal wrapped again and again in constructs that cancel or absorb
    (XOR(XOR(s,x),x), AND(s,OR(s,x)), OR(s,AND(s,x)), NXOR(NXOR(s,x),x)), every level being what a minimiser collapses
    onto the level below - so that one collapse lands on what an earlier collapse has just removed."""
    g = dict(net.gates)
    outs = list(net.outputs)
    labels = list(g)
    if not labels:
        return net
    k = 0
    for _ in range(rng.randint(1, 2)):
        s_ = rng.choice(labels)
        for lvl in range(rng.randint(2, 4)):
            x = rng.choice(labels)
            kind = rng.choice(['xor', 'xor', 'and_or', 'or_and', 'nxor'])
            a_, b_ = 'tw%d_a' % k, 'tw%d_b' % k
            k += 1
            if kind == 'xor':
                g[a_] = ('XOR', (s_, x)); g[b_] = ('XOR', (a_, x))
            elif kind == 'nxor':
                g[a_] = ('NXOR', (s_, x)); g[b_] = ('NXOR', (a_, x))
            elif kind == 'and_or':
                g[a_] = ('OR', (s_, x)); g[b_] = ('AND', (s_, a_))
            else:
                g[a_] = ('AND', (s_, x)); g[b_] = ('OR', (s_, a_))
            labels += [a_, b_]
            s_ = b_
            if rng.random() < 0.3:
                outs.append(b_)
        outs.append(s_)
    return refsem.Net(list(net.inputs), outs, g)


def add_reconvergence(net, rng):
    """Reconvergent fan-out: for a gate a with a transitive user w (at distance >= 2), add gates that combine a, w and a's
    own operands - cones then have cuts whose leaves depend on other gates of the cone (non-convex regions), the
    classic hard case of cut-based rewriting."""
    g = dict(net.gates)
    users = {}
    for l, (t, ops) in g.items():
        for o in ops:
            users.setdefault(o, []).append(l)
    inner = [l for l, (t, o) in g.items() if t != 'INPUT' and users.get(l)]
    if not inner:
        return net
    outs = list(net.outputs)
    for k in range(rng.randint(1, 2)):
        a = rng.choice(inner)
        lvl1 = users.get(a, [])
        lvl2 = [w for v in lvl1 for w in users.get(v, [])] or lvl1
        w = rng.choice(lvl2)
        pool = [a, w] + list(g[a][1])
        prev = None
        for j in range(rng.randint(1, 3)):
            lbl = 'rc%d_%d' % (k, j)
            if lbl in g:
                break
            x = prev if prev is not None and rng.random() < 0.6 else rng.choice(pool)
            y = rng.choice(pool)
            t = rng.choice([t_ for t_ in SUPPORTED if t_ != 'NOT'])
            g[lbl] = (t, (x, y))
            prev = lbl
        if prev is not None:
            outs.append(prev)
    return refsem.Net(list(net.inputs), outs, g)


def gen_case(rng, hashseed, bigcut=False, shapes=None):
    # cut_size is a free parameter of the pass (default 5); sizes above it get their own, smaller shards (cones with
    # 6..8 leaves make the SAT calls slow, so those cases run with a solver time limit)
    cut_size = rng.choice([6, 7, 7, 8]) if bigcut else rng.choice([2, 3, 4, 5])
    shape, net = gen_net(rng, n_in=rng.randint(cut_size, 9) if bigcut else None, shapes=shapes)
    case = {'kind': 'random', 'shape': shape, 'rseed': rng.getrandbits(32), 'hashseed': hashseed,
            'basis': rng.choice(['AIG', 'XAIG', 'FULL', 'aig', 'xaig', 'enum:AIG', 'enum:XAIG', 'enum:FULL']),
            'params': {'max_subcircuit_size': rng.choice([2, 3, 4, 5, 9]), 'cut_size': cut_size,
                       'cut_limit': rng.choice([3, 8, 25]), 'solver_time_limit_sec': rng.choice([0, 0, 0, 5]),
                       'enable_validation': rng.random() < 0.4},
            'policy': rng.choice(['faithful', 'faithful', 'shuffled', 'pruned', 'inputs_omitted']),
            'dedupe_first': rng.random() < 0.5, 'shuffle': rng.random() < 0.3}
    if bigcut:
        case['params'].update({'max_subcircuit_size': rng.choice([3, 4, 5]), 'solver_time_limit_sec': 2, 'cut_limit': 8})
        case['policy'] = 'faithful'
    if shape == 'adder':
        case['adder'] = [rng.randint(2, 3), rng.choice(['sum', 'sub', 'mul2'])]
    else:
        case['net'] = netgen.describe(net)
    return case


def gen_wide_case(rng, hashseed, n_in):
    """A core of the usual kind plus a chain over additional primary inputs (own output, or folded into a core output),
    so that the circuit has n_in primary inputs in total."""
    shape, core = gen_net(rng)
    while core is None:
        shape, core = gen_net(rng)
    g = dict(core.gates)
    ins = list(core.inputs)
    outs = list(core.outputs)
    extra = ['w%d' % i for i in range(max(0, n_in - len(ins)))]
    items = [(l, v) for l, v in g.items() if v[0] == 'INPUT'] + [(l, ('INPUT', ())) for l in extra] + \
            [(l, v) for l, v in g.items() if v[0] != 'INPUT']
    g = dict(items)
    prev = None
    for i, l in enumerate(extra):
        if prev is None:
            prev = l
            continue
        g['ch%d' % i] = (rng.choice(['AND', 'OR', 'XOR', 'AND']), (prev, l))
        prev = 'ch%d' % i
    if prev is not None:
        if outs and rng.random() < 0.5:
            g['fold'] = (rng.choice(['AND', 'XOR', 'OR']), (outs[-1], prev))
            outs[-1] = 'fold'
        else:
            outs.append(prev)
    net = refsem.Net(ins + extra, outs, g)
    return {'kind': 'random', 'shape': 'wide_inputs', 'rseed': rng.getrandbits(32), 'hashseed': hashseed,
            'basis': rng.choice(['AIG', 'XAIG', 'FULL']),
            'params': {'max_subcircuit_size': rng.choice([3, 4, 5]), 'cut_size': rng.choice([2, 3, 4]), 'cut_limit': 8,
                       'solver_time_limit_sec': 0, 'enable_validation': False},
            'policy': 'faithful', 'dedupe_first': False, 'net': netgen.describe(net)}


def build_case_circuit(case, rng):
    from cirbo.core.circuit import Circuit
    if case['shape'] == 'adder':
        from cirbo.synthesis.generation import arithmetics as ar
        n, kind = case['adder']
        if kind == 'sum':
            c = ar.generate_sum_n_bits(n + 2)
        elif kind == 'sub':
            c = ar.generate_sub_two_numbers(n, n)
        else:
            c = ar.generate_mul(2, 2)
        # constants with operands (ALWAYS_FALSE(x, x)) are outside the supported set: drop such cases via domain check
        return c
    net = netgen.from_description(case['net'])
    c = netgen.build(net, rng=rng, shuffle_storage=case.get('shuffle', False))
    if case.get('dedupe_first'):
        from cirbo.minimization.simplification import MergeEquivalentGates
        c = MergeEquivalentGates().transform(c)
    return c


def check_case(case, ctx):
    import mockturtle_wrapper as mw
    from cirbo.minimization.subcircuit import minimize_subcircuits
    from cirbo.synthesis.circuit_search import Basis
    CUR['case'] = case
    rng = random.Random(case['rseed'])
    with monitor.suspended():
        try:
            c = build_case_circuit(case, rng)
        except Exception as e:
            ctx.count('build_failed:' + type(e).__name__)
            return
    mw.POLICY = case['policy']
    mw.SEED = case['rseed']
    ctx.count('policy:' + case['policy'])
    b = case['basis']
    basis = Basis[b.split(':')[1]] if b.startswith('enum:') else b
    p = dict(case['params'])
    if p['enable_validation']:
        ctx.count('validation_enabled')
    CUR['last_nontrivial'] = False
    snap = refsem.net_of(c)
    eq = _has_equivalent_gates(snap)
    if eq is False:
        ctx.count('no_equivalent_gates')
    try:
        minimize_subcircuits(c, basis, **p)
        outcome = 'returned'
    except Exception as e:
        outcome = type(e).__name__
    ctx.case('%s|%s|%r|%s|%s' % (refsem.structural_hash(snap), b, sorted(p.items()), case['policy'], case['hashseed']),
             CUR['last_nontrivial'], cls='outcome:' + outcome,
             sample={'net': netgen.describe(snap), 'basis': b, 'params': p, 'policy': case['policy'],
                     'hashseed': case['hashseed'], 'branches': _branch_summary()} if CUR['last_nontrivial'] else None)


def run_shard(spec, ctx):
    install(ctx)
    rng = random.Random('C04:%s:%s' % (ctx.seed, spec['stream']))
    for i in range(spec['count']):
        if ctx.out_of_time():
            ctx.count('stopped_on_budget')
            break
        if spec.get('kind') == 'wide':
            ctx.count('wide_inputs_cases')
            check_case(gen_wide_case(rng, spec['hashseed'], spec['n_in'][i]), ctx)
        elif spec.get('kind') == 'hazard':
            ctx.count('hazard_shape_cases')
            check_case(gen_case(rng, spec['hashseed'], shapes=HAZARD_SHAPES), ctx)
        elif spec.get('kind') == 'bigcut':
            ctx.count('big_cut_size_cases')
            check_case(gen_case(rng, spec['hashseed'], bigcut=True), ctx)
        else:
            check_case(gen_case(rng, spec['hashseed']), ctx)


def replay(case, ctx):
    install(ctx)
    check_case(case, ctx)
