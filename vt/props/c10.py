"""C10 - circuit composition computes the documented functional composition.

Post-condition monitor on the real connect_circuit and its five wrappers against
an executable composition model written from the docstrings (labels, interface
order, truth table), attached-circuit snapshot, well-formedness, and block
extraction (Block.into_circuit gives back the attached circuit's function)."""
from __future__ import annotations

import random

from vt import monitor, netgen, refsem, wf

ID = 'C10'
LEVEL = 'exploration'
RULE = ('pairs of random circuits with disjoint and clashing labels; connectors that are internal gates, repeated base '
        'gates (left), partial connector lists, both directions, all wrappers, name/add_prefix combinations, attached circuits '
        'with own blocks; chains of 1..3 compositions (result fed to the next). distinct = (direction, connectors, naming, '
        'structural hashes of both circuits); non-trivial = >=1 connector pair and the attached circuit has a non-input gate.')
ANCHOR_FILES = ['cirbo/core/circuit/circuit.py']
ASSUMPTIONS = ['the composition model in this file is the documented composition', 'vt.refsem; vt.wf',
               'right connection with a repeated attached gate is outside the property (information only)']
REQUIRED = {'mon:connect_circuit.checked': 200, 'mon:connect_left.checked': 30, 'mon:connect_right.checked': 30,
            'mon:connect_inputs.checked': 20, 'mon:extend_circuit.checked': 30, 'mon:add_circuit.checked': 20,
            'block_extracted': 100, 'dir:right/internal_connector': 30, 'dir:left/repeated_base_gate': 20,
            'dir:left/internal_base_gate': 30, 'chain>=2': 50, 'deep_attached_circuits': 3}

CUR = {'ctx': None, 'case': None}


def shards(tier, seed):
    per = 180 if tier == 'quick' else 15000
    budget = 45 if tier == 'quick' else 540
    _out = [{'kind': 'random', 'count': per, 'budget_s': budget} for _ in range(16)]
    _out.append({'kind': 'deep', 'count': 4 if tier == 'quick' else 60, 'budget_s': budget,
                 'depths': [1200, 2500, 4000] if tier == 'quick' else [900, 1000, 1100, 1500, 3000, 6000]})
    if tier == 'thorough':
        _out.append({'kind': 'suite', 'select': ['tests'], 'budget_s': 900})
    return _out


# ------------------------------------------------------------------ composition model

class Clash(Exception):
    pass


def compose_model(base, other, tc, oc, right, name, add_prefix):
    """base/other: refsem.Net.  Returns (model Net, mapping other-label -> result label)."""
    prefix = name + '@' if (name != '' and add_prefix) else ''
    mapping = dict(zip(oc, tc))
    lab = lambda l: mapping[l] if l in mapping else prefix + l
    gates = dict(base.gates)
    for l, (t, ops) in other.gates.items():  # definition order is topological for generated nets
        if l not in mapping:
            nl = prefix + l
            if nl in gates:
                raise Clash(nl)
            gates[nl] = (t, tuple(lab(o) for o in ops))
        elif right:
            gates[mapping[l]] = (t, tuple(lab(o) for o in ops))
    inputs = [i for i in base.inputs if gates[i][0] == 'INPUT'] + [lab(i) for i in other.inputs if i not in oc]
    outputs = [o for o in base.outputs if o not in tc] + [lab(o) for o in other.outputs if o not in oc]
    return refsem.Net(inputs, outputs, gates), {l: lab(l) for l in other.gates}


def _valid_args(base, other, tc, oc, right):
    if len(tc) != len(oc):
        return False
    if any(x not in base.gates for x in tc) or any(x not in other.gates for x in oc):
        return False
    if right:
        if len(set(tc)) != len(tc) or any(base.gates[x][0] != 'INPUT' for x in tc):
            return False
        if len(set(oc)) != len(oc):
            return None  # accepted by the library, outside the property
    else:
        if len(set(oc)) != len(oc) or any(other.gates[x][0] != 'INPUT' for x in oc):
            return False
    return True


def check_composition(api, st, result, tc, oc, right, name, add_prefix, ctx):
    mon = api.split('.')[-1]
    if st is None:
        ctx.mon(mon, 'skipped_pre_not_wf')
        return
    base, other = st['base'], st['other']
    tc, oc = list(tc), list(oc)
    ok = _valid_args(base, other, tc, oc, right)
    if ok is None:
        ctx.mon(mon, 'skipped_repeated_attached_gate')
        return
    if not ok:
        ctx.violation(api, 'wrong_result', 'accepted_invalid_connectors',
                      'returned normally for connectors the documentation forbids: this=%r other=%r right=%r' % (tc, oc, right),
                      CUR['case'])
        return
    try:
        model, lab = compose_model(base, other, tc, oc, right, name, add_prefix)
    except Clash as e:
        ctx.violation(api, 'wrong_result', 'label_clash_accepted', 'label %s already existed but the call returned normally' % e, CUR['case'])
        return
    ctx.mon(mon)

    def V(disc, msg):
        ctx.violation(api, 'wrong_result', disc, msg, CUR['case'])

    r = refsem.net_of(result)
    if wf.deep_snapshot(st['other_obj']) != st['other_snap']:
        V('attached_modified', 'the attached circuit was modified')
    with monitor.suspended():
        errs = wf.errors(result)
    if errs:
        ctx.violation(api, 'invariant', 'not_wf:' + errs[0].split(' ')[0].split('(')[0], '; '.join(errs[:3]), CUR['case'])
        return
    # Interface: positions and counts are what the documentation promises.  Labels of the *base* circuit are kept;
    # the labels given to attached gates (prefix format) are not part of the property, so everything about the
    # attached part is compared by position and by function.
    n_base_in = sum(1 for i in base.inputs if model.gates[i][0] == 'INPUT')
    n_base_out = sum(1 for o in base.outputs if o not in tc)
    if len(r.inputs) != len(model.inputs):
        V('inputs', '%d inputs %r, documented composition has %d (%d remaining base inputs + %d unconnected attached inputs)' % (
            len(r.inputs), r.inputs, len(model.inputs), n_base_in, len(model.inputs) - n_base_in))
        return
    if r.inputs[:n_base_in] != model.inputs[:n_base_in]:
        V('inputs', 'base inputs %r became %r' % (model.inputs[:n_base_in], r.inputs[:n_base_in]))
        return
    if len(r.outputs) != len(model.outputs):
        V('outputs', '%d outputs %r, documented composition has %d (%d kept base outputs + %d unconnected attached outputs)' % (
            len(r.outputs), r.outputs, len(model.outputs), n_base_out, len(model.outputs) - n_base_out))
        return
    if r.outputs[:n_base_out] != model.outputs[:n_base_out]:
        V('outputs', 'kept base outputs %r became %r' % (model.outputs[:n_base_out], r.outputs[:n_base_out]))
        return
    if len(r.gates) != len(model.gates):
        V('gate_count', 'result has %d gates, documented composition %d' % (len(r.gates), len(model.gates)))
        return
    if len(set(r.inputs)) != len(r.inputs):
        V('inputs', 'duplicated input in %r' % (r.inputs,))
        return
    if len(model.inputs) <= 10:
        cols, mask, ns = refsem.canonical_columns(len(model.inputs))
        vm = refsem.eval_net(model, dict(zip(model.inputs, cols)), mask)
        try:
            vr = refsem.eval_net(r, dict(zip(r.inputs, cols)), mask)
        except (KeyError, RecursionError) as ex:
            V('result_not_evaluable', repr(ex))
            return
        for k, (om, orr) in enumerate(zip(model.outputs, r.outputs)):
            if vm[om] != vr[orr]:
                V('function', 'output #%d (%r) does not compute the composed function' % (k, orr))
                return
        for g in base.gates:
            if g in r.gates and vm[g] != vr[g]:
                V('gate_function', 'base gate %r does not compute the composed function' % g)
                return
            if g not in r.gates:
                V('base_gate_lost', 'base gate %r disappeared' % g)
                return
    # block extraction
    if name != '':
        if name not in result.blocks:
            V('block_missing', 'no block %r was created' % name)
            return
        try:
            with monitor.suspended():
                ext = result.get_block(name).into_circuit()
        except Exception as e:
            ctx.violation(api, 'exception', 'block_extraction:' + type(e).__name__,
                          'get_block(%r).into_circuit() raised %r' % (name, e), CUR['case'])
            return
        ctx.count('block_extracted')
        e = refsem.net_of(ext)
        # identification of attached inputs made by the connection: connected inputs are identified with their
        # base gate (two attached inputs on the same base gate become one), unconnected ones stay apart
        conn = dict(zip(oc, tc))
        classes = []
        cls_of = {}
        for i in other.inputs:
            c = ('c', conn[i]) if i in conn else ('u', i)
            cls_of[i] = c
            if c not in classes:
                classes.append(c)
        if len(e.inputs) != len(classes):
            V('block_inputs', 'extracted block has %d inputs %r, the attached circuit has %d distinct inputs after the connection' % (
                len(e.inputs), e.inputs, len(classes)))
            return
        if len(e.outputs) != len(other.outputs):
            V('block_outputs', 'extracted block has %d outputs, the attached circuit %d' % (len(e.outputs), len(other.outputs)))
            return
        if len(classes) <= 10:
            cols, mask, ns = refsem.canonical_columns(len(classes))
            ccol = dict(zip(classes, cols))
            try:
                ve = refsem.eval_net(e, dict(zip(e.inputs, cols)), mask, wanted=list(e.outputs))
            except (KeyError, RecursionError) as ex:
                V('block_malformed', 'extracted block cannot be evaluated: %r' % (ex,))
                return
            vo = refsem.eval_net(other, {i: ccol[cls_of[i]] for i in other.inputs}, mask, wanted=list(other.outputs))
            for k, (oo, eo) in enumerate(zip(other.outputs, e.outputs)):
                if ve[eo] != vo[oo]:
                    V('block_function', 'extracted block output #%d does not compute the attached circuit\'s function' % k)
                    return


def _pre(self, other):
    with monitor.suspended():
        if wf.errors(self, check_copy=False) or wf.errors(other, check_copy=False):
            return None
    return {'base': refsem.net_of(self), 'other': refsem.net_of(other), 'other_obj': other,
            'other_snap': wf.deep_snapshot(other)}


def install(ctx):
    from cirbo.core.circuit import Circuit
    CUR['ctx'] = ctx

    def arg(args, kwargs, i, name, default=None):
        return args[i] if len(args) > i else kwargs.get(name, default)

    def pre(args, kwargs):
        st = _pre(args[0], arg(args, kwargs, 1, 'other'))
        if st is not None:
            # snapshot: wrappers pass live lists (self.inputs) that grow during the call
            a2, a3 = arg(args, kwargs, 2, 'this_connectors'), arg(args, kwargs, 3, 'other_connectors')
            st['a2'] = None if a2 is None else list(a2)
            st['a3'] = None if a3 is None else list(a3)
        return st

    def post_cc(st, args, kwargs, result):
        if st is None:
            return
        check_composition('Circuit.connect_circuit', st, result, st['a2'],
                          st['a3'], kwargs.get('right_connect', False),
                          kwargs.get('name', ''), kwargs.get('add_prefix', True), ctx)

    monitor.attach(Circuit, 'connect_circuit', pre=pre, post=post_cc, counter=ctx.moncounter('connect_circuit'))

    def post_left(st, args, kwargs, result):
        if st is None:
            return
        check_composition('Circuit.connect_left', st, result, st['a2'],
                          st['other'].inputs, False, kwargs.get('name', ''), kwargs.get('add_prefix', True), ctx)

    monitor.attach(Circuit, 'connect_left', pre=pre, post=post_left)

    def post_right(st, args, kwargs, result):
        if st is None:
            return
        check_composition('Circuit.connect_right', st, result, st['base'].inputs, st['a2'],
                          True, kwargs.get('name', ''), kwargs.get('add_prefix', True), ctx)

    monitor.attach(Circuit, 'connect_right', pre=pre, post=post_right)

    def post_inputs(st, args, kwargs, result):
        if st is None:
            return
        check_composition('Circuit.connect_inputs', st, result, st['base'].inputs, st['other'].inputs, True,
                          kwargs.get('name', ''), kwargs.get('add_prefix', True), ctx)

    monitor.attach(Circuit, 'connect_inputs', pre=pre, post=post_inputs)

    def post_extend(st, args, kwargs, result):
        if st is None:
            return
        rc = kwargs.get('right_connect', False)
        tc = kwargs.get('this_connectors')
        oc = kwargs.get('other_connectors')
        tc = None if tc is None else list(tc)
        oc = None if oc is None else list(oc)
        if tc is None:
            tc = st['base'].inputs if rc else st['base'].outputs
        if oc is None:
            oc = st['other'].outputs if rc else st['other'].inputs
        check_composition('Circuit.extend_circuit', st, result, tc, oc, rc, kwargs.get('name', ''),
                          kwargs.get('add_prefix', True), ctx)

    monitor.attach(Circuit, 'extend_circuit', pre=pre, post=post_extend)

    def post_add(st, args, kwargs, result):
        if st is None:
            return
        check_composition('Circuit.add_circuit', st, result, [], [], False, kwargs.get('name', ''),
                          kwargs.get('add_prefix', True), ctx)

    monitor.attach(Circuit, 'add_circuit', pre=pre, post=post_add)


# ------------------------------------------------------------------ workload

def _gen_step(rng, base_net, step, deep=None):
    """Choose attached circuit + call description for the current base."""
    clash = rng.random() < 0.25
    onet = netgen.rand_net(rng, max_in=3, max_g=6, shape=rng.choice(netgen.SHAPES), n_out=rng.randint(1, 3),
                           allow_repeat_outputs=rng.random() < 0.3, const_operands=rng.random() < 0.3)
    if deep:
        # the attached circuit is a long dependency chain (ripple / iterated construction)
        clash = False
        onet = netgen.deep_net(rng, deep, n_in=rng.randint(1, 3))
    if not clash:
        onet = netgen.relabel(onet, {l: 'a%d_%s' % (step, l) for l in onet.gates})
    name = '' if rng.random() < (0.15 if deep else 0.4) else rng.choice(['B%d' % step, 'B%d' % step, 'B0', 'blk', 'N'])
    add_prefix = rng.random() < 0.75
    kw = {'name': name, 'add_prefix': add_prefix}
    blabels = list(base_net.gates)
    binputs = list(base_net.inputs)
    api = rng.choice(['connect_circuit_left', 'connect_circuit_left', 'connect_circuit_right', 'connect_circuit_right',
                      'connect_left', 'connect_right', 'connect_inputs', 'extend_left', 'extend_right', 'add_circuit'])
    if deep:
        api = rng.choice(['connect_circuit_left', 'connect_circuit_right', 'connect_left', 'connect_right', 'add_circuit'])
    d = {'api': api, 'other': netgen.describe(onet), 'kw': kw, 'other_block': rng.random() < 0.25, 'oseed': rng.getrandbits(32)}
    if api == 'connect_circuit_left':
        k = rng.randint(0, len(onet.inputs)) if blabels else 0
        d['oc'] = rng.sample(list(onet.inputs), k)
        tc = []
        for _ in range(k):
            tc.append(rng.choice(tc) if tc and rng.random() < 0.25 else rng.choice(blabels))
        d['tc'] = tc
    elif api == 'connect_circuit_right':
        k = rng.randint(0, min(len(binputs), 3))
        d['tc'] = rng.sample(binputs, k)
        og = list(onet.gates)
        d['oc'] = rng.sample(og, min(k, len(og))) if rng.random() < 0.9 else [rng.choice(og) for _ in range(k)]
        d['tc'] = d['tc'][:len(d['oc'])]
    elif api == 'connect_left':
        d['tc'] = [rng.choice(blabels) for _ in onet.inputs] if blabels else []
    elif api == 'connect_right':
        og = list(onet.gates)
        k = len(binputs)
        if k <= len(og):
            d['oc'] = rng.sample(og, k)
        else:
            d['oc'] = [rng.choice(og) for _ in range(k)]
    elif api == 'connect_inputs':
        n = len(binputs)
        onet = netgen.rand_net(rng, n_in=n, max_g=5, n_out=rng.randint(1, 2), const_operands=False)
        if not clash:
            onet = netgen.relabel(onet, {l: 'a%d_%s' % (step, l) for l in onet.gates})
        d['other'] = netgen.describe(onet)
    elif api == 'extend_left':
        nout = len(base_net.outputs)
        onet = netgen.rand_net(rng, n_in=nout, max_g=5, n_out=rng.randint(1, 2), const_operands=False)
        onet = netgen.relabel(onet, {l: 'a%d_%s' % (step, l) for l in onet.gates})
        d['other'] = netgen.describe(onet)
    elif api == 'extend_right':
        n = len(binputs)
        onet = netgen.rand_net(rng, max_in=3, max_g=6, n_out=n, allow_repeat_outputs=False, allow_input_outputs=rng.random() < 0.3)
        onet = netgen.relabel(onet, {l: 'a%d_%s' % (step, l) for l in onet.gates})
        d['other'] = netgen.describe(onet)
    return d


def _apply(c, d):
    onet = netgen.from_description(d['other'])
    with monitor.suspended():
        other = netgen.build(onet, rng=random.Random(d.get('oseed', 0)))  # incl. deepcopy / pickle clones
        if d.get('other_block'):
            inner = [l for l in onet.gates if onet.gates[l][0] != 'INPUT']
            if inner:
                other.make_block('ob', inner[:2], inner[:1])
    api, kw = d['api'], d['kw']
    if api == 'connect_circuit_left':
        return c.connect_circuit(other, d['tc'], d['oc'], **kw)
    if api == 'connect_circuit_right':
        return c.connect_circuit(other, d['tc'], d['oc'], right_connect=True, **kw)
    if api == 'connect_left':
        return c.connect_left(other, d['tc'], **kw)
    if api == 'connect_right':
        return c.connect_right(other, d['oc'], **kw)
    if api == 'connect_inputs':
        return c.connect_inputs(other, **kw)
    if api == 'extend_left':
        return c.extend_circuit(other, **kw)
    if api == 'extend_right':
        return c.extend_circuit(other, right_connect=True, **kw)
    return c.add_circuit(other, **kw)


def check_case(case, ctx):
    import copy
    from cirbo.exceptions import CirboError
    CUR['case'] = case
    rng = random.Random(case['rseed'])
    net = netgen.from_description(case['net'])
    with monitor.suspended():
        try:
            c = netgen.build(net, rng=rng)
        except Exception as e:
            ctx.count('build_failed:' + type(e).__name__)
            return
    ok_steps = 0
    steps = []
    CUR['case'] = dict(case, steps=steps)
    for step in range(case['chain']):
        with monitor.suspended():
            base_net = refsem.net_of(c)
            backup = copy.deepcopy(c)
        d = _gen_step(rng, base_net, step, deep=case.get('deep'))
        if case.get('deep'):
            ctx.count('deep_attached_circuits')
        steps.append(d)
        onet = netgen.from_description(d['other'])
        nviol = sum(ctx._viol_count.values())
        try:
            _apply(c, d)
            outcome = 'ok'
            ok_steps += 1
            if c.blocks and rng.random() < 0.3:
                # the caller drops a block registration (the gates stay): the name is free for the next attachment
                with monitor.suspended():
                    c.delete_block(rng.choice(sorted(c.blocks)))
                ctx.count('block_registration_deleted')
        except CirboError as e:
            outcome = type(e).__name__
            c = backup
        except Exception as e:
            # undocumented exception type: judged only when the arguments are valid and labels do not clash
            outcome = type(e).__name__
            tc, oc = d.get('tc'), d.get('oc')
            ctx.count('undocumented_exception:' + outcome)
            c = backup
        # classes
        api = d['api']
        right = api in ('connect_circuit_right', 'connect_right', 'connect_inputs', 'extend_right')
        oc = d.get('oc', [])
        tc = d.get('tc', [])
        if outcome == 'ok':
            if right and any(onet.gates.get(x, ('INPUT',))[0] != 'INPUT' for x in oc):
                ctx.count('dir:right/internal_connector')
            if api == 'extend_right' and any(onet.gates[o][0] != 'INPUT' for o in onet.outputs):
                ctx.count('dir:right/internal_connector')
            if not right and len(set(tc)) < len(tc):
                ctx.count('dir:left/repeated_base_gate')
            if not right and any(base_net.gates.get(x, ('INPUT',))[0] != 'INPUT' for x in tc):
                ctx.count('dir:left/internal_base_gate')
        nconn = len(oc) if api.startswith('connect_circuit') or api == 'connect_right' else (
            len(onet.inputs) if api in ('connect_left', 'connect_inputs', 'extend_left') else (len(onet.outputs) if api == 'extend_right' else 0))
        nontrivial = outcome == 'ok' and nconn >= 1 and any(t != 'INPUT' for t, _ in onet.gates.values())
        ctx.case('%s|%s|%r|%r|%r|%s|%s' % (api, outcome, tc, oc, sorted(d['kw'].items()), refsem.structural_hash(base_net),
                                         refsem.structural_hash(onet)), nontrivial, cls='api:%s/%s' % (api, 'ok' if outcome == 'ok' else 'raised'),
                 sample={'base': netgen.describe(base_net), 'call': d} if nontrivial and c.size < 14 else None)
        if sum(ctx._viol_count.values()) != nviol or c.size > 60:
            break
    if ok_steps >= 2:
        ctx.count('chain>=2')
    # afterwards: copy and evaluate through the library (must not raise on a composed circuit)
    try:
        with monitor.suspended():
            k = copy.copy(c)
            if len(k.inputs) <= 8:
                k.get_truth_table()
                k.get_gates_truth_table()
    except Exception as e:
        ctx.unexpected('use after composition', e, CUR['case'])


def gen_case(rng, spec):
    shape = rng.choice(netgen.SHAPES)
    net = netgen.rand_net(rng, shape=shape, max_in=4, min_in=1, max_g=7, max_arity=3, n_out=rng.randint(1, 3),
                          label_style=rng.choice(['plain', 'plain', 'plain', 'at', 'derived']))
    if spec.get('kind') == 'deep':
        return {'kind': 'random', 'shape': shape, 'net': netgen.describe(net), 'rseed': rng.getrandbits(32), 'chain': 1,
                'deep': rng.choice(spec['depths'])}
    return {'kind': 'random', 'shape': shape, 'net': netgen.describe(net), 'rseed': rng.getrandbits(32),
            'chain': rng.randint(1, 3)}


def run_shard(spec, ctx):
    install(ctx)
    if spec.get('kind') == 'suite':
        from vt import suite
        import sys
        suite.run(sys.modules[__name__], ctx, select=spec.get('select'))
        return
    for i in range(spec['count']):
        if ctx.out_of_time():
            ctx.count('stopped_on_budget')
            break
        check_case(gen_case(ctx.rng, spec), ctx)


def replay(case, ctx):
    install(ctx)
    check_case(case, ctx)
