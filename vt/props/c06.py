"""C06 - exact synthesis is sound and complete for the requested size and basis.

Monitors on the real CircuitFinderSat: __init__/fix_gate/forbid_wire record the
request and every constraint that was accepted; the post-condition of
find_circuit decides soundness of the returned circuit (structure, basis,
agreement with the model on every defined entry, every imposed constraint);
a NoSolutionError is decided against a planted solution supplied by the
workload or against an own brute-force enumeration of the whole search space."""
from __future__ import annotations

import itertools
import random

from vt import monitor, refsem

ID = 'C06'
LEVEL = 'exploration'
RULE = ('function models with n 1..4 inputs, m 1..3 outputs, don\'t-care density 0..100% (incl. all-don\'t-care rows), gate '
        'budgets r 0..6, bases AIG/XAIG/FULL as enum and string and custom operation lists, need_normalized, all fix_gate '
        'forms (both / first / second predecessor, gate type) and forbid_wire, with and without a solver time limit (forked '
        'pebble worker).  Planted instances (a random circuit of exactly r gates defines the model and satisfiable '
        'constraints) decide completeness; for small (n, r) an own brute-force enumerator decides existence for arbitrary '
        'models and arbitrary (also unsatisfiable) constraint sets.  distinct = (model, r, basis, constraints); non-trivial = '
        'r >= 2 or constraints present.')
ANCHOR_FILES = ['cirbo/synthesis/circuit_search.py']
ASSUMPTIONS = ['python-sat is absent: the solver is the self-checking z3-backed stand-in (any sound and complete solver is within the property)',
               'completeness is judged over circuits whose gates read two distinct predecessors (the space the encoding ranges over)',
               'fix_gate with a single predecessor k means: k is one of the two predecessors']
REQUIRED = {'mon:find_circuit.returned': 60, 'mon:find_circuit.no_solution': 20, 'planted': 50, 'brute_force_decided': 30,
            'constraint:fix_both': 10, 'constraint:fix_first': 10, 'constraint:fix_second': 10, 'constraint:fix_type': 10,
            'constraint:forbid_wire': 10, 'need_normalized': 10, 'basis:custom': 5, 'basis:str': 10, 'time_limit_used': 3, 'call_order:get_cnf_then_constrain': 5, 'call_order:search_then_constrain': 5,
            'dont_cares': 30, 'continued_after_refused_request': 15, 'solver_starved': 20}

CUR = {'ctx': None, 'case': None}
REG = {}      # id(finder) -> record
PLANTED = {}  # id(finder) -> planted circuit description

OPS16 = ['ALWAYS_FALSE', 'ALWAYS_TRUE', 'LNOT', 'LIFF', 'RNOT', 'RIFF', 'OR', 'NOR', 'AND', 'NAND', 'XOR', 'NXOR', 'GT', 'LT', 'GEQ', 'LEQ']
BASES = {'AIG': ['LNOT', 'AND', 'OR', 'NAND', 'NOR', 'GT', 'LT', 'GEQ', 'LEQ'],
         'XAIG': ['LNOT', 'AND', 'OR', 'NAND', 'NOR', 'GT', 'LT', 'GEQ', 'LEQ', 'XOR', 'NXOR'], 'FULL': list(OPS16)}


def shards(tier, seed):
    per = 40 if tier == 'quick' else 3000
    budget = 55 if tier == 'quick' else 570
    return [{'kind': 'random', 'count': per, 'budget_s': budget} for _ in range(16)]


def tt4(name):
    return tuple(int(refsem.op_scalar(name, (bool(i // 2), bool(i % 2)))) for i in range(4))


# ------------------------------------------------------------------ monitors

def post_init(st, args, kwargs, result):
    self = args[0]
    model = args[1] if len(args) > 1 else kwargs['boolean_function_model']
    r = args[2] if len(args) > 2 else kwargs['number_of_gates']
    basis = kwargs.get('basis', 'XAIG-default')
    rec = {'obj': self, 'n': model.input_size, 'm': model.output_size, 'r': r, 'norm': bool(kwargs.get('need_normalized', False)),
           'fix': [], 'forbid': [], 'basis_arg': basis}
    from cirbo.core.logic import DontCare
    try:
        tab = model.get_model_truth_table()
        rec['table'] = [[(None if v == DontCare else bool(v)) for v in row] for row in tab]
    except Exception:
        rec['table'] = None
    rec['basis_tables'] = _basis_tables(basis)
    REG[id(self)] = rec


def _basis_tables(basis):
    from cirbo.synthesis.circuit_search import Basis, Operation
    if isinstance(basis, str):
        if basis == 'XAIG-default':
            names = BASES['XAIG']
        else:
            names = BASES.get(basis.upper())
    elif isinstance(basis, Basis):
        names = BASES[basis.name]
    else:
        names = [op.name.rstrip('_').upper() for op in basis]
    if names is None:
        return None
    return {tt4(nm) for nm in names}


def _rec(self):
    rec = REG.get(id(self))
    return rec if rec is not None and rec['obj'] is self else None


def post_fix_gate(st, args, kwargs, result):
    rec = _rec(args[0])
    if rec is None:
        return
    g = args[1] if len(args) > 1 else kwargs['gate']
    rec['fix'].append({'gate': g, 'first': kwargs.get('first_predecessor'), 'second': kwargs.get('second_predecessor'),
                       'type': kwargs.get('gate_type').name if kwargs.get('gate_type') is not None else None})


def post_forbid_wire(st, args, kwargs, result):
    rec = _rec(args[0])
    if rec is None:
        return
    a = args[1] if len(args) > 1 else kwargs['from_gate']
    b = args[2] if len(args) > 2 else kwargs['to_gate']
    rec['forbid'].append((a, b))


def decode(circuit, rec):
    """Read the returned circuit as a list of (first, second, table4, type) per gate index, or an error.
    Gate indices are positional (the i-th input is gate i, the k-th non-input gate in construction order is gate
    n+k): labels are not part of the property."""
    n, r = rec['n'], rec['r']
    net = refsem.net_of(circuit)
    if len(net.inputs) != n:
        return None, ('inputs', '%d inputs, the model has %d' % (len(net.inputs), n))
    inner = [l for l, (t, _) in net.gates.items() if t != 'INPUT']
    if len(inner) != r:
        return None, ('gate_count', 'circuit has %d gates, %d were requested' % (len(inner), r))
    idx = {l: i for i, l in enumerate(net.inputs)}
    for k, l in enumerate(inner):
        idx[l] = n + k
    gates = []
    for k, lbl in enumerate(inner):
        t, ops = net.gates[lbl]
        if len(ops) != 2:
            return None, ('arity', 'gate %s has %d operands' % (lbl, len(ops)))
        try:
            a, b = idx[ops[0]], idx[ops[1]]
        except KeyError as e:
            return None, ('operand', 'gate %s reads unknown %s' % (lbl, e))
        if not (a < n + k and b < n + k):
            return None, ('operand_order', 'gate %s reads %r which is not an input or an earlier gate' % (lbl, ops))
        gates.append((a, b, tt4(t), t))
    outs = []
    for o in net.outputs:
        if o not in idx or idx[o] < n:
            return None, ('output_not_a_gate', 'output %r is not taken at a gate' % (o,))
        outs.append(idx[o])
    return (gates, outs, net), None


def check_constraints(gates, rec):
    n = rec['n']
    for f in rec['fix']:
        k = f['gate'] - n
        if not (0 <= k < len(gates)):
            continue
        a, b, tab, tname = gates[k]
        if f['first'] is not None and f['second'] is not None:
            if (a, b) != (f['first'], f['second']):
                return 'fix_gate(%d, first=%d, second=%d) but the gate reads (%d, %d)' % (f['gate'], f['first'], f['second'], a, b)
        elif f['first'] is not None:
            if f['first'] not in (a, b):
                return 'fix_gate(%d, first_predecessor=%d) but the gate reads (%d, %d)' % (f['gate'], f['first'], a, b)
        elif f['second'] is not None:
            if f['second'] not in (a, b):
                return 'fix_gate(%d, second_predecessor=%d) but the gate reads (%d, %d)' % (f['gate'], f['second'], a, b)
        if f['type'] is not None and tab != tt4(f['type']):
            return 'fix_gate(%d, gate_type=%s) but the gate is %s' % (f['gate'], f['type'], tname)
    for (x, y) in rec['forbid']:
        k = y - n
        if 0 <= k < len(gates) and x in gates[k][:2]:
            return 'forbid_wire(%d, %d) but gate %d reads (%d, %d)' % (x, y, y, gates[k][0], gates[k][1])
    return None


def eval_structure(gates, outs, n):
    """Truth tables (ints over canonical index) of outputs of a structure [(a, b, table4)]."""
    cols, mask, ns = refsem.canonical_columns(n)
    vals = list(cols)
    for a, b, tab in gates:
        x, y = vals[a], vals[b]
        v = 0
        if tab[0]:
            v |= ~x & ~y
        if tab[1]:
            v |= ~x & y
        if tab[2]:
            v |= x & ~y
        if tab[3]:
            v |= x & y
        vals.append(v & mask)
    return [vals[o] for o in outs], ns


def agrees(out_ints, table, ns):
    for j, row in enumerate(table):
        for k, v in enumerate(row):
            if v is not None and bool((out_ints[j] >> k) & 1) != v:
                return 'output %d at input %d is %r, the model says %r' % (j, k, bool((out_ints[j] >> k) & 1), v)
    return None


def post_find(st, args, kwargs, result):
    ctx = CUR['ctx']
    self = args[0]
    rec = _rec(self)
    if rec is None or rec['table'] is None or kwargs.get('circuit_db') is not None:
        ctx.mon('find_circuit', 'skipped_untracked')
        return
    ctx.mon('find_circuit', 'returned')

    def V(disc, msg):
        ctx.violation('CircuitFinderSat.find_circuit', 'wrong_result', disc, msg, CUR['case'])

    dec, err = decode(result, rec)
    if err:
        V('structure:' + err[0], err[1])
        return
    gates, outs, net = dec
    if len(outs) != rec['m']:
        V('output_count', '%d outputs, the model has %d' % (len(outs), rec['m']))
        return
    bt = rec['basis_tables']
    if bt is not None:
        for k, (a, b, tab, tname) in enumerate(gates):
            if tab not in bt:
                V('basis', 'gate s%d is %s which is outside the requested basis %r' % (rec['n'] + k, tname, rec['basis_arg']))
                return
    if rec['norm']:
        for k, (a, b, tab, tname) in enumerate(gates):
            if tab[0]:
                V('not_normalized', 'need_normalized but gate s%d (%s) maps (0,0) to 1' % (rec['n'] + k, tname))
                return
    out_ints, ns = refsem.output_ints(net)
    e = agrees(out_ints, rec['table'], ns)
    if e:
        V('disagrees_with_model', e)
        return
    e = check_constraints(gates, rec)
    if e:
        V('constraint_ignored', e)
        return


def raise_find(st, args, kwargs, exc):
    from cirbo.synthesis.exception import NoSolutionError, SolverTimeOutError
    ctx = CUR['ctx']
    self = args[0]
    rec = _rec(self)
    if rec is None or rec['table'] is None or kwargs.get('circuit_db') is not None:
        return
    if isinstance(exc, SolverTimeOutError) and not isinstance(exc, NoSolutionError):
        # "out of time" is no claim - unless a caller's `except NoSolutionError` would take it for one
        ctx.mon('find_circuit', 'timeout')
        return
    if not isinstance(exc, NoSolutionError):
        ctx.violation('CircuitFinderSat.find_circuit', 'exception', type(exc).__name__, 'raised %r' % (exc,), CUR['case'])
        return
    ctx.mon('find_circuit', 'no_solution')
    pl = PLANTED.get(id(self))
    if pl is not None:
        ctx.violation('CircuitFinderSat.find_circuit', 'wrong_result', 'missed_planted_solution',
                      'NoSolutionError although this circuit satisfies the request: %r' % (pl,), CUR['case'])
        return
    w = brute_force(rec)
    if w == 'skipped':
        ctx.mon('find_circuit', 'no_solution_undecided')
        return
    ctx.count('brute_force_decided')
    if w is not None:
        ctx.violation('CircuitFinderSat.find_circuit', 'wrong_result', 'missed_solution',
                      'NoSolutionError although brute force finds %r' % (w,), CUR['case'])


def brute_force(rec, limit=400000):
    """Enumerate all circuits of the documented shape; return a witness or None; 'skipped' if too large."""
    n, r, m = rec['n'], rec['r'], rec['m']
    bt = rec['basis_tables']
    if bt is None:
        return 'skipped'
    tabs = sorted(t for t in bt if not (rec['norm'] and t[0]))
    if r == 0:
        return None
    size = 1
    for k in range(r):
        size *= ((n + k) * (n + k - 1) // 2) * max(len(tabs), 1)
    size *= r ** m
    if size > limit:
        return 'skipped'
    pair_lists = [list(itertools.combinations(range(n + k), 2)) for k in range(r)]
    if any(not p for p in pair_lists) or not tabs:
        return None
    for pairs in itertools.product(*pair_lists):
        for types in itertools.product(tabs, repeat=r):
            gates = [(p[0], p[1], t, '?') for p, t in zip(pairs, types)]
            if check_constraints(gates, rec) is not None:
                continue
            for outs in itertools.product(range(n, n + r), repeat=m):
                oi, ns = eval_structure([(a, b, t) for a, b, t, _ in gates], outs, n)
                if agrees(oi, rec['table'], ns) is None:
                    return {'gates': [(a, b, t) for a, b, t, _ in gates], 'outputs': list(outs)}
    return None


def install(ctx):
    from cirbo.synthesis.circuit_search import CircuitFinderSat
    CUR['ctx'] = ctx
    monitor.attach(CircuitFinderSat, '__init__', post=post_init)
    monitor.attach(CircuitFinderSat, 'fix_gate', post=post_fix_gate)
    monitor.attach(CircuitFinderSat, 'forbid_wire', post=post_forbid_wire)
    monitor.attach(CircuitFinderSat, 'find_circuit', post=post_find, on_raise=raise_find, counter=ctx.moncounter('find_circuit'))


# ------------------------------------------------------------------ workload

def gen_case(rng):
    n = rng.choice([1, 2, 2, 3, 3, 3, 4])
    r = rng.choice([0, 1, 2, 2, 3, 3, 4, 5, 6]) if n < 4 else rng.choice([1, 2, 3, 4])
    m = rng.choice([1, 1, 2, 3])
    bkind = rng.choice(['enum', 'enum', 'str', 'custom'])
    bname = rng.choice(['AIG', 'XAIG', 'FULL'])
    if bkind == 'custom':
        ops = rng.sample(OPS16, rng.choice([0, 1, 1, 2, 3, 4, 5, 6, 8]))   # incl. the empty and one-operation lists
        if 'AND' not in ops and len(ops) >= 2 and rng.random() < 0.7:
            ops.append('AND')
    else:
        ops = BASES[bname]
    norm = rng.random() < 0.2
    planted = rng.random() < 0.7 and r >= 1 and n >= 2
    case = {'kind': 'random', 'n': n, 'r': r, 'm': m, 'basis_kind': bkind, 'basis_name': bname, 'ops': ops, 'norm': norm,
            'rseed': rng.getrandbits(32), 'planted': None, 'time_limit': 60 if rng.random() < 0.12 else None,
            'model_kind': rng.choice(['tt', 'tt', 'py'])}
    usable = [o for o in ops if not (norm and tt4(o)[0])]
    if planted and usable:
        gates = []
        for k in range(r):
            a, b = sorted(rng.sample(range(n + k), 2))
            gates.append([a, b, rng.choice(usable)])
        outs = [rng.randrange(n, n + r) for _ in range(m)]
        oi, ns = eval_structure([(a, b, tt4(t)) for a, b, t in gates], outs, n)
        table = [[bool((oi[j] >> k) & 1) for k in range(ns)] for j in range(m)]
        case['planted'] = {'gates': gates, 'outputs': outs}
    else:
        ns = 1 << n
        table = [[rng.random() < 0.5 for _ in range(ns)] for _ in range(m)]
    dens = rng.choice([0, 0, 0.2, 0.5, 0.9, 1.0])
    tab = [[(None if rng.random() < dens else v) for v in row] for row in table]
    if rng.random() < 0.1 and m > 1:
        tab[0] = [None] * len(tab[0])
    case['table'] = tab
    # constraints
    cons = []
    if r >= 1 and rng.random() < 0.6:
        for _ in range(rng.randint(1, 3)):
            g = rng.randrange(n, n + r)
            kind = rng.choice(['fix_both', 'fix_first', 'fix_second', 'fix_type', 'forbid_wire', 'fix_first_type'])
            if case['planted']:
                a, b, t = case['planted']['gates'][g - n]
                if kind == 'fix_both':
                    cons.append(['fix', g, a, b, None])
                elif kind == 'fix_first':
                    cons.append(['fix', g, rng.choice([a, b]), None, None])
                elif kind == 'fix_second':
                    cons.append(['fix', g, None, rng.choice([a, b]), None])
                elif kind == 'fix_type':
                    cons.append(['fix', g, None, None, t])   # needs a predecessor too (API), add first
                    cons[-1][2] = a
                elif kind == 'fix_first_type':
                    cons.append(['fix', g, b, None, t])
                else:
                    cand = [x for x in range(g) if x not in (a, b)]
                    if cand:
                        cons.append(['forbid', rng.choice(cand), g])
            else:
                if g < 2:
                    continue
                if kind == 'fix_both':
                    a, b = sorted(rng.sample(range(g), 2))
                    cons.append(['fix', g, a, b, None])
                elif kind == 'fix_first':
                    cons.append(['fix', g, rng.randrange(g), None, None])
                elif kind == 'fix_second':
                    cons.append(['fix', g, None, rng.randrange(g), None])
                elif kind in ('fix_type', 'fix_first_type'):
                    cons.append(['fix', g, rng.randrange(g), None, rng.choice(OPS16)])
                else:
                    cons.append(['forbid', rng.randrange(g), g])
    # a pinned gate type chosen freely (also one that contradicts need_normalized or the basis): the request may
    # become unsatisfiable, so the planted circuit is dropped and existence is left to the brute-force oracle
    if r >= 1 and n >= 2 and rng.random() < 0.25:
        g = rng.randrange(max(n, 2), n + r) if n + r > max(n, 2) else n
        if g >= 2:
            a, b = sorted(rng.sample(range(g), 2))
            t = rng.choice(OPS16)
            cons.append(['fix', g, a, b if rng.random() < 0.6 else None, t])
            case['planted'] = None
            case['free_type'] = True
    # requests the library must refuse (wrong operand order, equal operands, a predecessor that is not before the gate,
    # a wire that does not go forward), with a gate type some of the time: the caller catches the error and goes on
    # with the same finder - a refused request must leave no trace
    if r >= 1 and n + r >= 3 and rng.random() < 0.35:
        for _ in range(rng.randint(1, 2)):
            g = rng.randrange(n, n + r)
            kind = rng.choice(['swapped', 'equal', 'late', 'late_first', 'backward_wire'])
            t = rng.choice(OPS16) if rng.random() < 0.7 else None
            if kind == 'swapped' and g >= 2:
                a, b = sorted(rng.sample(range(g), 2))
                bad = ['fix', g, b, a, t]
            elif kind == 'equal' and g >= 1:
                a = rng.randrange(g)
                bad = ['fix', g, a, a, t]
            elif kind == 'late':
                bad = ['fix', g, rng.randrange(g) if g else None, rng.randrange(g, n + r + 1), t]
            elif kind == 'late_first':
                bad = ['fix', g, rng.randrange(g, n + r + 1), None, t]
            else:
                bad = ['forbid', rng.randrange(g, n + r), g]
            cons.insert(rng.randrange(len(cons) + 1), bad)
            case['refusable_requests'] = True
    case['constraints'] = cons
    case['starve_solver'] = rng.random() < 0.12
    return case


def check_case(case, ctx):
    from cirbo.core.logic import DontCare
    from cirbo.core.python_function import PyFunctionModel
    from cirbo.core.truth_table import TruthTableModel
    from cirbo.synthesis.circuit_search import Basis, CircuitFinderSat, Operation
    from cirbo.synthesis.exception import NoSolutionError, SolverTimeOutError
    from cirbo.core.circuit import gate as G
    CUR['case'] = case
    n, r, m = case['n'], case['r'], case['m']
    tab = [[(DontCare if v is None else v) for v in row] for row in case['table']]
    if any(v is None for row in case['table'] for v in row):
        ctx.count('dont_cares')
    if case['model_kind'] == 'tt':
        model = TruthTableModel(tab)
    else:
        def f(args):
            k = 0
            for v in args:
                k = (k << 1) | (1 if v else 0)
            return [row[k] for row in tab]
        model = PyFunctionModel(f, n, output_size=m)
    if case['basis_kind'] == 'enum':
        basis = Basis[case['basis_name']]
    elif case['basis_kind'] == 'str':
        basis = case['basis_name'].lower() if case['rseed'] % 2 else case['basis_name']
        ctx.count('basis:str')
    else:
        basis = [Operation[o.lower() + '_'] for o in case['ops']]
        ctx.count('basis:custom')
    if case['norm']:
        ctx.count('need_normalized')
    try:
        finder = CircuitFinderSat(model, r, basis=basis, need_normalized=case['norm'])
        # incremental use of one finder: the formula is looked at (or a first search is run) before the constraints are
        # imposed; the search after the constraints is judged like any other
        order = case['rseed'] % 7 if case['constraints'] else 0
        if order == 1:
            ctx.count('call_order:get_cnf_then_constrain')
            finder.get_cnf()
        elif order == 2:
            ctx.count('call_order:search_then_constrain')
            try:
                finder.find_circuit()
            except (NoSolutionError, SolverTimeOutError):
                pass
        for c in case['constraints']:
            try:
                if c[0] == 'fix':
                    kw = {}
                    if c[2] is not None:
                        kw['first_predecessor'] = c[2]
                    if c[3] is not None:
                        kw['second_predecessor'] = c[3]
                    if c[4] is not None:
                        kw['gate_type'] = getattr(G, c[4])
                    finder.fix_gate(c[1], **kw)
                    if c[2] is not None and c[3] is not None:
                        ctx.count('constraint:fix_both')
                    elif c[2] is not None:
                        ctx.count('constraint:fix_first')
                    elif c[3] is not None:
                        ctx.count('constraint:fix_second')
                    if c[4] is not None:
                        ctx.count('constraint:fix_type')
                else:
                    finder.forbid_wire(c[1], c[2])
                    ctx.count('constraint:forbid_wire')
            except Exception as e:
                ctx.count('constraint_rejected:' + type(e).__name__)
                if case.get('refusable_requests'):
                    ctx.count('continued_after_refused_request')
        if case['planted']:
            PLANTED[id(finder)] = case['planted']
            ctx.count('planted')
        if case['rseed'] % 5 == 0:
            finder.get_cnf()
        kw = {}
        if case['time_limit']:
            kw['time_limit'] = case['time_limit']
            ctx.count('time_limit_used')
        import pysat.solvers as _ps
        old_cap = _ps.CAP_MS
        if case.get('starve_solver'):
            # fault injection: the solver is given (almost) no time, so the search ends the way an expired time limit
            # ends it; whatever the caller is told then must not be "no solution"
            _ps.CAP_MS = 1
            ctx.count('solver_starved')
        try:
            finder.find_circuit(**kw)
            outcome = 'returned'
        except NoSolutionError:
            outcome = 'no_solution'
        except SolverTimeOutError:
            outcome = 'timeout'
        finally:
            _ps.CAP_MS = old_cap
    except Exception as e:
        ctx.unexpected('CircuitFinderSat', e, case)
        outcome = 'error'
    finally:
        REG.clear()
        PLANTED.clear()
    key = '%d|%d|%d|%s|%r|%r|%r|%s' % (n, r, m, case['basis_kind'] + case['basis_name'], case['ops'] if case['basis_kind'] == 'custom' else '',
                                       case['table'], case['constraints'], case['norm'])
    ctx.case(key, r >= 2 or bool(case['constraints']), cls='outcome:' + outcome,
             sample={k: v for k, v in case.items() if k not in ('rseed',)} if r >= 2 else None)


def run_shard(spec, ctx):
    install(ctx)
    for i in range(spec['count']):
        if ctx.out_of_time():
            ctx.count('stopped_on_budget')
            break
        check_case(gen_case(ctx.rng), ctx)


def replay(case, ctx):
    install(ctx)
    check_case(case, ctx)
