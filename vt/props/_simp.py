"""Shared machinery of C03 and C18: pipeline descriptions, monitors on
Transformer.transform / apply_transformers / cleanup, workload."""
from __future__ import annotations

import random

from vt import monitor, netgen, refsem, wf

ANCHOR_FILES = ['cirbo/minimization/simplification/remove_redundant_gates.py',
                'cirbo/minimization/simplification/merge_unary_operators.py',
                'cirbo/minimization/simplification/merge_duplicate_gates.py',
                'cirbo/minimization/simplification/merge_equivalent_gates.py',
                'cirbo/minimization/simplification/cleanup.py', 'cirbo/core/circuit/transformer.py']

LEAVES = ['RRG', 'RRG_in', 'MUO', 'MDG', 'MEG']
NEG = {'NOT', 'LNOT', 'RNOT'}
BUF = {'IFF', 'LIFF', 'RIFF'}
SIG = {'NOT': 0, 'LNOT': 0, 'RNOT': 1, 'IFF': 0, 'LIFF': 0, 'RIFF': 1}

CUR = {'ctx': None, 'case': None, 'mode': None}


def leaf(name):
    from cirbo.minimization.simplification import (MergeDuplicateGates, MergeEquivalentGates, MergeUnaryOperators,
                                                    RemoveRedundantGates)
    if name == 'RRG':
        return RemoveRedundantGates()
    if name == 'RRG_in':
        return RemoveRedundantGates(allow_inputs_removal=True)
    if name == 'MUO':
        return MergeUnaryOperators()
    if name == 'MDG':
        return MergeDuplicateGates()
    if name == 'MEG':
        return MergeEquivalentGates()
    raise KeyError(name)


_KEPT = {}      # pass / pipeline objects kept by the caller and applied to one circuit after another
REUSE = {'on': True, 'n': 0}


def build_pipe(desc, top=True):
    """desc: leaf name | ['pipe', d1, d2, ...] (built with the | operator, left-assoc, nested allowed).  Half of the
    time an object built earlier in this process for the same description is handed out again: passes and pipelines are
    values a caller builds once and applies to many circuits."""
    if top and REUSE['on']:
        key = repr(desc)
        import random as _r
        if key in _KEPT and (REUSE.get('always') or _r.random() < 0.5):
            REUSE['n'] += 1
            return _KEPT[key]
        t = build_pipe(desc, top=False)
        _KEPT[key] = t
        return t
    if isinstance(desc, str):
        return leaf(desc)
    assert desc[0] == 'pipe'
    t = build_pipe(desc[1], top=False)
    for d in desc[2:]:
        t = t | build_pipe(d, top=False)
    return t


def flavour(rng, seq):
    """The same passes handed over as any of the iterables the signature (Iterable[Transformer]) admits."""
    k = rng.choice(['list', 'list', 'tuple', 'generator', 'iter', 'map'])
    seq = list(seq)
    if k == 'list':
        return seq
    if k == 'tuple':
        return tuple(seq)
    if k == 'generator':
        return (x for x in seq)
    if k == 'iter':
        return iter(seq)
    return map(lambda x: x, seq)


def implied(names):
    """Leaf names incl. the post-passes a pass implies (as describe_transformer reports them for a real object)."""
    out = []
    for n in names:
        out.append(n)
        if n in ('MUO', 'MDG', 'MEG'):
            out.append('RRG')
    return out


def flat(desc):
    if isinstance(desc, str):
        return [desc]
    out = []
    for d in desc[1:]:
        out += flat(d)
    return out


def describe_transformer(t):
    """Flatten a real transformer object into leaf names incl. implied post-passes, via as_distinct."""
    out = []
    for x in t.as_distinct(imply_deps=True):
        n = type(x).__name__
        if n == 'RemoveRedundantGates':
            out.append('RRG_in' if x._allow_inputs_removal else 'RRG')
        else:
            out.append({'MergeUnaryOperators': 'MUO', 'MergeDuplicateGates': 'MDG', 'MergeEquivalentGates': 'MEG'}.get(n, n))
    return out


# ------------------------------------------------------------------ C03 oracle

def pre_snapshot(circuit):
    return {'snap': wf.deep_snapshot(circuit), 'net': refsem.net_of(circuit), 'id': id(circuit),
            'size': circuit.size}


def check_c03(api, st, circuit, result, removal_requested, ctx, case, nonempty=True):
    """Post-condition of C03 on one call.  Returns True when the netlist changed."""
    from cirbo.core.circuit import Circuit

    def V(disc, msg):
        ctx.violation(api, 'wrong_result', disc, msg, case)

    if not isinstance(result, Circuit):
        V('not_a_circuit', 'returned %r' % (type(result),))
        return False
    if nonempty and result is circuit:
        V('same_object', 'the argument object itself was returned')
    if wf.deep_snapshot(circuit) != st['snap']:
        V('argument_modified', 'the argument circuit was modified')
    with monitor.suspended():
        errs = wf.errors(result)
    if errs:
        V('result_not_wf:' + errs[0].split('(')[0].split(' ')[0], 'result not well formed: ' + '; '.join(errs[:3]))
        return True
    a = st['net']
    r = refsem.net_of(result)
    if len(r.outputs) != len(a.outputs):
        V('output_count', 'argument has %d outputs, result %d' % (len(a.outputs), len(r.outputs)))
        return True
    if not removal_requested:
        if r.inputs != a.inputs:
            V('inputs_changed', 'inputs %r became %r' % (a.inputs, r.inputs))
            return True
    else:
        it = iter(a.inputs)
        if not all(x in it for x in r.inputs):
            V('inputs_not_subsequence', 'inputs %r became %r' % (a.inputs, r.inputs))
            return True
    if result.size > st['size']:
        V('grew', 'argument has %d gates, result %d' % (st['size'], result.size))
    if len(a.inputs) <= 10:
        ta, ns = refsem.output_ints(a)
        if r.inputs == a.inputs:
            tr, _ = refsem.output_ints(r)
        else:
            # evaluate result over the argument's assignment space (projection onto kept inputs)
            cols, mask, ns = refsem.canonical_columns(len(a.inputs))
            colmap = dict(zip(a.inputs, cols))
            vals = refsem.eval_net(r, {i: colmap[i] for i in r.inputs}, mask, wanted=list(r.outputs))
            tr = [vals[o] for o in r.outputs]
        for i, (x, y) in enumerate(zip(ta, tr)):
            if x != y:
                V('function_changed', 'output %d: truth table %s became %s' % (i, bin(x), bin(y)))
                break
    changed = (dict(r.gates) != dict(a.gates)) or r.outputs != a.outputs
    return changed


# ------------------------------------------------------------------ C18 oracle

def _reachable(net):
    seen = set()
    st = list(net.outputs)
    while st:
        g = st.pop()
        if g in seen:
            continue
        seen.add(g)
        st.extend(net.gates[g][1])
    return seen


def check_effect(name, arg_net, result, ctx, case):
    """Stated effect of a single leaf pass (C18), applied with its implied post-passes."""
    r = refsem.net_of(result)
    api = 'pass:' + name

    def V(disc, msg):
        ctx.violation(api, 'wrong_result', disc, msg, case)

    if name in ('RRG', 'RRG_in'):
        reach = _reachable(arg_net)
        want = set(reach)
        if name == 'RRG':
            want |= set(arg_net.inputs)
        if set(r.gates) != want:
            V('not_exactly_reachable', 'kept %r, reachable(+inputs) %r' % (sorted(set(r.gates) ^ want)[:6], len(want)))
        else:
            for g in r.gates:
                if r.gates[g] != arg_net.gates[g]:
                    V('gate_rewritten', 'gate %r changed from %r to %r' % (g, arg_net.gates[g], r.gates[g]))
                    break
    elif name == 'MDG':
        seen = {}
        for g, (t, ops) in r.gates.items():
            if t == 'INPUT':
                continue
            sig = (t, tuple(sorted(ops)) if t in refsem.SYMMETRIC else tuple(ops))
            if sig in seen:
                V('duplicate_left', 'gates %r and %r both are %s%r' % (seen[sig], g, t, ops))
                break
            seen[sig] = g
    elif name == 'MEG':
        if len(r.inputs) <= 10:
            vals, ns = refsem.truth_tables(r)
            seen = {}
            for g, (t, ops) in r.gates.items():
                if t == 'INPUT':
                    continue
                if vals[g] in seen:
                    V('equivalent_left', 'non-input gates %r and %r have the same truth table' % (seen[vals[g]], g))
                    break
                seen[vals[g]] = g
    elif name == 'MUO':
        un = {g for g, (t, o) in r.gates.items() if t in NEG or t in BUF}
        arg_un_types = {t for g, (t, o) in arg_net.gates.items() if t in NEG or t in BUF}
        # the statement is about circuits whose unary gates are all negations / all buffers
        if arg_un_types and arg_un_types <= NEG:
            for g, (t, ops) in r.gates.items():
                if t in NEG:
                    o = ops[SIG[t]]
                    if r.gates[o][0] in NEG:
                        V('double_negation_left', 'gate %r = %s of %r which is %s' % (g, t, o, r.gates[o][0]))
                        break
            ctx.count('muo_all_negations')
        elif arg_un_types and arg_un_types <= BUF:
            bad = None
            for g, (t, ops) in r.gates.items():
                for o in ops:
                    if r.gates[o][0] in BUF:
                        bad = 'gate %r has buffer operand %r' % (g, o)
            for o in r.outputs:
                if r.gates[o][0] in BUF:
                    bad = 'output %r is a buffer' % (o,)
            if bad:
                V('buffer_left', bad)
            ctx.count('muo_all_buffers')


# ------------------------------------------------------------------ monitors

def install(ctx, mode):
    """mode 'C03' or 'C18'."""
    from cirbo.core.circuit.transformer import Transformer
    import importlib
    cl = importlib.import_module('cirbo.minimization.simplification.cleanup')
    import cirbo.minimization.simplification as simp
    import cirbo.minimization as mini
    CUR['ctx'] = ctx
    CUR['mode'] = mode

    @monitor.outer_only
    def pre_transform(args, kwargs):
        c = args[1] if len(args) > 1 else kwargs['circuit']
        names = describe_transformer(args[0])
        if not names or any(nm not in LEAVES for nm in names):
            return None  # not one of the library's passes (test doubles are applied to arbitrary objects); post skips too
        return pre_snapshot(c)

    @monitor.outer_only
    def post_transform(st, args, kwargs, result):
        self = args[0]
        c = args[1] if len(args) > 1 else kwargs['circuit']
        names = describe_transformer(self)
        if not names or any(nm not in LEAVES for nm in names):
            # a transformer that is not one of the library's simplification passes (e.g. a test double)
            ctx.mon('transform', 'skipped_foreign_transformer')
            return
        # what the caller asked for when it built the object (workload-made objects): the object's own flags may have been
        # changed behind the caller's back, which is exactly what must be noticed
        intended = CUR.pop('intended', None)
        if intended is not None:
            names = intended
        ctx.mon('transform')
        if mode == 'C03':
            check_c03('Transformer.transform', st, c, result, 'RRG_in' in names, ctx, CUR['case'])
        else:
            if type(self).__name__ != 'TransformerComposition':
                check_effect(names[0], st['net'], result, ctx, CUR['case'])

    monitor.attach(Transformer, 'transform', pre=pre_transform, post=post_transform, counter=ctx.moncounter('transform'))

    @monitor.outer_only
    def pre_apply(args, kwargs):
        from cirbo.core.circuit import Circuit
        c = args[0] if args else kwargs['circuit']
        if not isinstance(c, Circuit):
            return None
        return pre_snapshot(c)

    @monitor.outer_only
    def post_apply(st, args, kwargs, result):
        c = args[0] if args else kwargs['circuit']
        ts = args[1] if len(args) > 1 else kwargs['transformers']
        from cirbo.core.circuit.transformer import TransformerComposition
        intended = CUR.pop('intended', None)
        if isinstance(ts, TransformerComposition):
            lst = [ts]
        elif isinstance(ts, (list, tuple)):
            lst = list(ts)
        else:
            lst = None   # a one-shot iterable: the monitor must not (and, after the call, cannot) iterate it
        if lst is None and intended is None:
            ctx.mon('apply_transformers', 'skipped_one_shot_iterable')
            return
        names = []
        for t in (lst or []):
            names += describe_transformer(t)
        if st is None or any(nm not in LEAVES for nm in names):
            ctx.mon('apply_transformers', 'skipped_foreign_transformer')
            return
        if intended is not None:
            names = intended
        ctx.mon('apply_transformers')
        if mode == 'C03':
            check_c03('Transformer.apply_transformers', st, c, result, 'RRG_in' in names, ctx, CUR['case'],
                      nonempty=bool(names))

    monitor.attach(Transformer, 'apply_transformers', pre=pre_apply, post=post_apply,
                   counter=ctx.moncounter('apply_transformers'))

    @monitor.outer_only
    def pre_cleanup(args, kwargs):
        c = args[0] if args else kwargs['circuit']
        return pre_snapshot(c)

    @monitor.outer_only
    def post_cleanup(st, args, kwargs, result):
        c = args[0] if args else kwargs['circuit']
        ctx.mon('cleanup')
        if mode == 'C03':
            check_c03('cleanup', st, c, result, False, ctx, CUR['case'])

    w = monitor.attach(cl, 'cleanup', pre=pre_cleanup, post=post_cleanup, counter=ctx.moncounter('cleanup'))
    for m in (simp, mini):
        if getattr(m, 'cleanup', None) is not None:
            orig = m.cleanup
            m.cleanup = w
            monitor._installed.append((m, 'cleanup', orig))


# ------------------------------------------------------------------ workload

def gen_net(rng, spec):
    shape = rng.choice(['unary', 'unary', 'dups', 'dups', 'random', 'chain', 'diamond', 'consts', 'nary', 'wide'])
    net = netgen.rand_net(rng, shape=shape, max_in=spec.get('max_in', 5), min_in=0 if rng.random() < 0.05 else 1, max_g=spec.get('max_g', 12), max_arity=4,
                          label_style=rng.choice(['plain', 'plain', 'digits', 'odd', 'derived']))
    if not net.gates:
        return shape, net   # the empty circuit: nothing to decorate
    r = rng.random()
    if r < 0.35:
        net = _pure_unary(net, rng, NEG)
        shape += '+allneg'
    elif r < 0.55:
        net = _pure_unary(net, rng, BUF)
        shape += '+allbuf'
    elif r < 0.7:
        net = _add_equivalents(net, rng)
        shape += '+equiv'
    elif r < 0.85:
        net = _add_duplicate_towers(net, rng)
        shape += '+duptowers'
    return shape, net


def _pure_unary(net, rng, family):
    """Rewrite unary gates so that all of them belong to one family (negations / buffers) and add chains."""
    fam = sorted(family)
    g2 = {}
    for l, (t, ops) in net.gates.items():
        if t in NEG or t in BUF:
            nt = rng.choice(fam)
            if nt in ('NOT', 'IFF'):
                ops = (ops[SIG[t]],)
            else:
                sigop = ops[SIG[t]]
                other = rng.choice(list(g2)) if g2 else sigop
                ops = (sigop, other) if SIG[nt] == 0 else (other, sigop)
            g2[l] = (nt, ops)
        else:
            g2[l] = (t, ops)
    # chains of unary gates feeding symmetric and asymmetric gates
    labels = list(g2)
    k = 0
    for _ in range(rng.randint(1, 4) if labels else 0):
        src = rng.choice(labels)
        for d in range(rng.randint(1, 4)):
            nt = rng.choice(fam)
            lbl = 'u%d' % k
            k += 1
            while lbl in g2:
                lbl += '_'
            other = rng.choice(labels)
            ops = (src,) if nt in ('NOT', 'IFF') else ((src, other) if SIG[nt] == 0 else (other, src))
            g2[lbl] = (nt, ops)
            labels.append(lbl)
            src = lbl
        if rng.random() < 0.7:
            t = rng.choice(['AND', 'GT', 'XOR', 'LEQ', 'NOR'])
            lbl = 'c%d' % k
            k += 1
            g2[lbl] = (t, (src, rng.choice(labels)))
            labels.append(lbl)
    outs = list(net.outputs)
    for _ in range(rng.randint(0, 2)):
        outs.append(rng.choice(labels))
    return refsem.Net(list(net.inputs), outs, g2)


def _add_duplicate_towers(net, rng):
    """Towers of structural duplicates: a clone X' of a gate X (operands permuted when the type is symmetric), then users
    U1 = T(X, M) and U2 = T(X', M) that become duplicates once X' is merged into X, then users of those ... with labels
    drawn from a shuffled pool, so that the label order of X, X', M is arbitrary w.r.t. the structure."""
    sym = ['AND', 'OR', 'XOR', 'NAND', 'NOR', 'NXOR']
    g2 = dict(net.gates)
    outs = list(net.outputs)
    pool = ['g%d' % i for i in range(1, 60)] + ['t%d' % i for i in range(10)] + ['a', 'b', 'z', 'M', 'X', 'Y']
    pool = [l for l in pool if l not in g2]
    rng.shuffle(pool)
    for _ in range(rng.randint(1, 2)):
        base = [l for l, (t, o) in g2.items() if t != 'INPUT' and len(o) >= 1]
        if not base or len(pool) < 8:
            break
        x = rng.choice(base)
        t, ops = g2[x]
        ops2 = list(ops)
        if t in sym:
            rng.shuffle(ops2)
        x2 = pool.pop()
        g2[x2] = (t, tuple(ops2))
        level = [(x, x2)]
        for depth in range(rng.randint(1, 3)):
            a, b = level[-1]
            m = rng.choice([l for l in g2 if l not in (a, b)])
            tt = rng.choice(sym + ['GT', 'LEQ'])
            u1, u2 = pool.pop(), pool.pop()
            o1, o2 = [a, m], [b, m]
            if tt in sym:
                if rng.random() < 0.5:
                    o1.reverse()
                if rng.random() < 0.5:
                    o2.reverse()
            elif rng.random() < 0.5:
                o1.reverse()
                o2.reverse()
            g2[u1] = (tt, tuple(o1))
            g2[u2] = (tt, tuple(o2))
            level.append((u1, u2))
        a, b = level[-1]
        outs += [a, b] if rng.random() < 0.7 else [b]
    return refsem.Net(list(net.inputs), outs, g2)


def _add_equivalents(net, rng):
    """Add functionally equal but structurally different gates (De Morgan, double swap, absorbing)."""
    g2 = dict(net.gates)
    labels = list(g2)
    k = 0
    for _ in range(rng.randint(1, 3)):
        cands = [l for l, (t, o) in g2.items() if t in ('AND', 'OR', 'GT', 'LT', 'XOR') and len(o) == 2]
        if not cands:
            break
        l = rng.choice(cands)
        t, (a, b) = g2[l]
        n1, n2, e = 'e%da' % k, 'e%db' % k, 'e%d' % k
        k += 1
        if n1 in g2 or n2 in g2 or e in g2:
            continue
        if t == 'AND':
            g2[n1] = ('NOT', (a,))
            g2[n2] = ('NOT', (b,))
            g2[e] = ('NOR', (n1, n2))
        elif t == 'OR':
            g2[n1] = ('NOT', (a,))
            g2[n2] = ('NOT', (b,))
            g2[e] = ('NAND', (n1, n2))
        elif t == 'GT':
            g2[e] = ('LT', (b, a))
        elif t == 'LT':
            g2[e] = ('GT', (b, a))
        else:
            g2[n1] = ('NXOR', (a, b))
            g2[e] = ('NOT', (n1,))
        labels.append(e)
        # a user of the twin
        u = 'eu%d' % k
        if u not in g2:
            g2[u] = (rng.choice(['AND', 'OR', 'XOR']), (e, rng.choice(labels)))
            labels.append(u)
    outs = list(net.outputs) + [rng.choice(labels) for _ in range(rng.randint(0, 2))]
    return refsem.Net(list(net.inputs), outs, g2)


def gen_pipeline(rng):
    r = rng.random()
    if r < 0.35:
        return rng.choice(LEAVES)
    n = rng.randint(2, 4 if r < 0.8 else 6)
    items = []
    for _ in range(n):
        if rng.random() < 0.2:
            items.append(['pipe'] + [rng.choice(LEAVES) for _ in range(rng.randint(2, 3))])
        else:
            items.append(rng.choice(LEAVES))
    if rng.random() < 0.3:
        # adjacent idempotent duplicates
        i = rng.randrange(len(items))
        items.insert(i, items[i])
    return ['pipe'] + items
