"""C02 - circuits stay well formed under every history of public mutations.

Inductive invariant at the outermost public-call boundary: if the circuit (and a
circuit argument) was well formed when the call started and the call returned
normally, it is well formed afterwards (vt.wf recomputes everything from the
operand relation).  Histories of random public calls with valid and invalid
arguments drive the monitors; raising calls are rolled back."""
from __future__ import annotations

import copy
import random

from vt import monitor, netgen, refsem, wf

ID = 'C02'
LEVEL = 'exploration'
RULE = ('seeded random histories (1..12 quick / 1..40 thorough public calls) over ~27 public constructors/mutators with '
        'valid and invalid arguments on starting circuits of every shape class; biased to right-connection with internal '
        'connectors, into_bench, rename of gates with duplicated operands, replace_inputs, blocks.  A raising call is rolled '
        'back (not part of the history).  distinct = hash of (start shape, sequence of (op, outcome)); non-trivial = >=2 '
        'successful mutations, at least one changing the operand relation.')
ANCHOR_FILES = ['cirbo/core/circuit/circuit.py', 'cirbo/core/circuit/converters.py', 'cirbo/core/circuit/validation.py',
                'cirbo/core/circuit/utils.py']
ASSUMPTIONS = ['vt.wf (users multiset, inputs, acyclicity, top-sort, blocks, copy) is the definition of well formed',
               'state after a raising call is not demanded (rolled back from a deep copy)']
MUTATORS = ['add_gate', 'emplace_gate', 'add_inputs', 'remove_gate', 'rename_gate', 'mark_as_output', 'set_outputs',
            'set_inputs', 'order_inputs', 'order_outputs', 'replace_inputs', 'connect_circuit', 'connect_left',
            'connect_right', 'connect_inputs', 'extend_circuit', 'add_circuit', 'replace_subcircuit', 'make_block',
            'make_block_from_slice', 'delete_block', 'remove_block', 'into_bench']
REQUIRED = {('mon:%s.ok' % m): 5 for m in MUTATORS}
REQUIRED.update({'cross:c10': 5, 'cross:c19': 5, 'cross:c07': 5, 'cross:c03': 5, 'mon:__copy__.ok': 20, 'mon:from_bench_string.ok': 5, 'mon:into_circuit.ok': 3,
                 'right_connect_internal_connector': 5})

CUR = {'ctx': None, 'case': None, 'hist': None}


def shards(tier, seed):
    per = 400 if tier == "quick" else 4000
    budget = 45 if tier == 'quick' else 540
    out = [{'kind': 'random', 'count': per, 'budget_s': budget, 'max_len': 12 if tier == 'quick' else 40}
           for _ in range(14)]
    out.append({'kind': 'cross', 'count': 25 if tier == 'quick' else 600, 'budget_s': budget, 'modules': CROSS[:5]})
    out.append({'kind': 'cross', 'count': 25 if tier == 'quick' else 600, 'budget_s': budget, 'modules': CROSS[5:]})
    out.append({'kind': 'deep', 'count': 3 if tier == 'quick' else 30, 'budget_s': budget,
                'depths': netgen.DEEP_QUICK if tier == 'quick' else netgen.DEEP_THOROUGH})
    _out = out
    if tier == 'thorough':
        _out.append({'kind': 'suite', 'select': ['tests/cirbo/core', 'tests/cirbo/circuits_db', 'tests/cirbo/minimization', 'tests/cirbo/sat'], 'budget_s': 900})
    return _out


# ------------------------------------------------------------------ monitors

def _circuit_args(args, kwargs):
    from cirbo.core.circuit import Circuit
    out = []
    for a in list(args[1:]) + list(kwargs.values()):
        if isinstance(a, Circuit):
            out.append(a)
    return out


def _mk(name, result_is_new=False, self_is_circuit=True):
    @monitor.outer_only
    def pre(args, kwargs):
        ctx = CUR['ctx']
        st = {'clean': True}
        if self_is_circuit:
            e = wf.errors(args[0], check_copy=False)
            if e:
                st['clean'] = False
        for o in _circuit_args(args, kwargs):
            if wf.errors(o, check_copy=False):
                st['clean'] = False
        if not st['clean']:
            ctx.mon(name, 'pre_not_wf')
        return st

    @monitor.outer_only
    def post(st, args, kwargs, result):
        ctx = CUR['ctx']
        if st is None or not st['clean']:
            return
        from cirbo.core.circuit import Circuit
        targets = []
        if self_is_circuit:
            targets.append(('self', args[0]))
        if result_is_new and isinstance(result, Circuit):
            targets.append(('result', result))
        for o in _circuit_args(args, kwargs):
            targets.append(('argument', o))
        ok = True
        for role, c in targets:
            with monitor.suspended():
                errs = wf.errors(c)
            if errs:
                ok = False
                disc = _classify(errs)
                ctx.violation('Circuit.%s' % name, 'invariant', '%s:%s' % (role, disc),
                              '%s after %s: %s' % (role, name, '; '.join(errs[:3])),
                              dict(CUR['case'] or {}, history=list(CUR['hist'] or []), failing_call=name))
        ctx.mon(name, 'ok' if ok else 'broken')

    return pre, post


def _classify(errs):
    e = errs[0]
    for key, tag in [('users(', 'users_index'), ('users entry', 'users_index'), ('inputs list', 'inputs_list'),
                     ('does not exist', 'dangling_reference'), ('cycle', 'cycle'), ('top_sort', 'top_sort'),
                     ('block', 'block'), ('copy', 'copy'), ('mutating the copy', 'copy_shares_state'),
                     ('stored under', 'label_mismatch')]:
        if key in e:
            return tag
    return 'other'


def install(ctx):
    from cirbo.core.circuit import Circuit
    from cirbo.core.circuit.circuit import Block
    CUR['ctx'] = ctx
    for m in MUTATORS:
        pre, post = _mk(m)
        monitor.attach(Circuit, m, pre=pre, post=post)
    pre, post = _mk('__copy__', result_is_new=True)
    monitor.attach(Circuit, '__copy__', pre=pre, post=post)
    for m in ('from_bench_string', 'from_bench_file', 'bare_circuit', 'bare_circuit_with_labels'):
        pre, post = _mk(m, result_is_new=True, self_is_circuit=False)
        monitor.attach(Circuit, m, pre=pre, post=post)
    pre, post = _mk('into_circuit', result_is_new=True, self_is_circuit=False)

    @monitor.outer_only
    def pre_ic(args, kwargs):
        st = {'clean': not wf.errors(args[0].circuit_owner, check_copy=False)}
        return st

    monitor.attach(Block, 'into_circuit', pre=pre_ic, post=post)


# ------------------------------------------------------------------ history generation

GT = None


def _types():
    global GT
    if GT is None:
        GT = netgen.gate_type_by_name()
    return GT


def _fresh(c, rng, base='n'):
    while True:
        l = '%s%d' % (base, rng.randrange(10 ** 6))
        if not c.has_gate(l):
            return l


def _rand_operands(c, rng, t):
    labels = list(c.gates)
    if not labels:
        return None
    if t in refsem.CONST:
        return () if rng.random() < 0.6 else tuple(rng.choice(labels) for _ in range(2))
    if t in refsem.UNARY:
        return (rng.choice(labels),)
    if t in refsem.BINARY_ONLY:
        a = rng.choice(labels)
        return (a, a if rng.random() < 0.15 else rng.choice(labels))
    k = 2 if rng.random() < 0.7 else rng.randint(3, 4)
    ops = [rng.choice(labels) for _ in range(k)]
    if rng.random() < 0.15:
        ops[-1] = ops[0]
    return tuple(ops)


def _small_other(rng, tag):
    net = netgen.rand_net(rng, max_in=3, max_g=5, shape=rng.choice(netgen.SHAPES), n_out=rng.randint(1, 2),
                          const_operands=rng.random() < 0.3)
    if rng.random() < 0.7:
        mp = {l: '%s_%s' % (tag, l) for l in net.gates}
        net = netgen.relabel(net, mp)
    return net


def gen_op(c, rng, step):
    """Return (opname, thunk(c) -> maybe new current circuit, description, changes_relation)."""
    from cirbo.core.circuit import Circuit, Gate
    gt = _types()
    labels = list(c.gates)
    inputs = list(c.inputs)
    r = rng.random()
    ops = ['add_gate', 'emplace_gate', 'add_inputs', 'remove_gate', 'rename_gate', 'mark_as_output', 'set_outputs',
           'set_inputs', 'order_inputs', 'order_outputs', 'replace_inputs', 'connect_right', 'connect_circuit_right',
           'connect_left', 'connect_circuit_left', 'connect_inputs', 'extend_circuit', 'add_circuit',
           'replace_subcircuit', 'make_block', 'make_block_from_slice', 'delete_block', 'remove_block', 'into_bench',
           'copy', 'reparse', 'block_into_circuit', 'bare', 'live_args', 'replace_free']
    weights = [5, 6, 2, 5, 6, 2, 3, 2, 2, 2, 3, 5, 7, 4, 4, 3, 4, 3, 6, 4, 4, 2, 3, 5, 4, 2, 3, 1, 5, 5]
    op = rng.choices(ops, weights)[0]
    invalid = rng.random() < 0.12

    if op == 'replace_free':
        # replace_subcircuit with freely chosen correspondences: a small subcircuit whose inputs are mapped to arbitrary
        # host gates and whose gates (declared as its outputs or not) replace arbitrary host gates.  Most such requests
        # must be refused (they would close a cycle, or break an output); whatever is accepted must leave a well-formed DAG
        if len(labels) < 2:
            return gen_op_fallback(c, rng)
        k_in = rng.randint(1, 2)
        sg = {'fi%d' % i: ('INPUT', ()) for i in range(k_in)}
        prev = list(sg)
        for j in range(rng.randint(1, 3)):
            t = rng.choice(['AND', 'OR', 'XOR', 'NOT', 'GT'])
            ops = (rng.choice(prev),) if t == 'NOT' else (rng.choice(prev), rng.choice(prev))
            sg['fg%d_%d' % (step, j)] = (t, ops)
            prev.append('fg%d_%d' % (step, j))
        inner = [l for l in sg if not l.startswith('fi')]
        declared = rng.sample(inner, rng.randint(0, len(inner)))
        subn = refsem.Net(['fi%d' % i for i in range(k_in)], declared, sg)
        hosts_in = rng.sample(labels, min(k_in, len(labels)))
        imap = {h: 'fi%d' % i for i, h in enumerate(hosts_in)}
        non_in = [l for l in labels if c.get_gate(l).gate_type.name != 'INPUT' and l not in imap] or labels
        omap = {rng.choice(non_in): rng.choice(inner)}
        d = netgen.describe(subn)
        return 'replace_subcircuit', (lambda c: c.replace_subcircuit(netgen.build(subn), dict(imap), dict(omap))), \
            ['replace_free', d, imap, omap], True

    if op == 'live_args':
        # what the accessors return (the circuit's own live lists) handed straight back to a mutator
        which = rng.choice(['set_inputs', 'set_outputs', 'order_inputs', 'order_outputs', 'replace_inputs_true',
                            'replace_inputs_false', 'make_block_outputs', 'make_block_users', 'connect_left_outputs',
                            'mark_each_output', 'add_inputs_inputs'])
        nm = _fresh(c, rng, 'lb')
        other = _small_other(rng, 'lv%d' % step)

        def thunk(c, which=which):
            if which == 'set_inputs':
                return c.set_inputs(c.inputs)
            if which == 'set_outputs':
                return c.set_outputs(c.outputs)
            if which == 'order_inputs':
                return c.order_inputs(c.inputs)
            if which == 'order_outputs':
                return c.order_outputs(c.outputs)
            if which == 'replace_inputs_true':
                return c.replace_inputs(c.inputs, [])
            if which == 'replace_inputs_false':
                return c.replace_inputs([], c.inputs)
            if which == 'make_block_outputs':
                return c.make_block(nm, c.outputs, c.outputs)
            if which == 'make_block_users':
                l0 = next((l for l in c.gates if c.get_gate_users(l)), None)
                if l0 is None:
                    return c
                us = c.get_gate_users(l0)
                return c.make_block(nm, us, us)
            if which == 'connect_left_outputs':
                return c.connect_circuit(other, c.outputs, other.inputs[:len(c.outputs)] if len(other.inputs) >= len(c.outputs) else other.inputs)
            if which == 'mark_each_output':
                for l in c.outputs[:3]:
                    c.mark_as_output(l)
                return c
            return c.add_inputs(c.inputs)
        return which if which in ('set_inputs', 'set_outputs', 'order_inputs', 'order_outputs') else {
            'replace_inputs_true': 'replace_inputs', 'replace_inputs_false': 'replace_inputs', 'make_block_outputs': 'make_block',
            'make_block_users': 'make_block', 'connect_left_outputs': 'connect_circuit', 'mark_each_output': 'mark_as_output',
            'add_inputs_inputs': 'add_inputs'}[which], thunk, ['live_args', which], which.startswith(('replace', 'connect'))

    if op in ('add_gate', 'emplace_gate'):
        t = rng.choice(netgen.ALL_GATE_TYPES)
        operands = _rand_operands(c, rng, t)
        if operands is None:
            t, operands = 'INPUT', ()
        lbl = _fresh(c, rng, 'g')
        if invalid and labels:
            if rng.random() < 0.5:
                lbl = rng.choice(labels)
            else:
                operands = operands[:-1] + ('__missing__',) if operands else ('__missing__',)
        if op == 'add_gate':
            return op, (lambda c: c.add_gate(Gate(lbl, gt[t], operands))), [op, lbl, t, list(operands)], True
        return op, (lambda c: c.emplace_gate(lbl, gt[t], operands)), [op, lbl, t, list(operands)], True
    if op == 'add_inputs':
        ls = [_fresh(c, rng, 'in') for _ in range(rng.randint(1, 2))]
        if invalid and labels:
            ls.append(rng.choice(labels))
        return op, (lambda c: c.add_inputs(ls)), [op, ls], False
    if op == 'remove_gate':
        free = [l for l in labels if not c.get_gate_users(l)]
        l = rng.choice(free) if (free and not invalid) else (rng.choice(labels) if labels else '__missing__')
        return op, (lambda c: c.remove_gate(l)), [op, l], True
    if op == 'rename_gate':
        if not labels:
            return gen_op_fallback(c, rng)
        # prefer gates with duplicated operands / several users / outputs
        pref = [l for l in labels if len(set(c.get_gate(l).operands)) < len(c.get_gate(l).operands)
                or len(c.get_gate_users(l)) > 1 or l in c.outputs]
        old = rng.choice(pref) if pref and rng.random() < 0.6 else rng.choice(labels)
        new = _fresh(c, rng, 'r')
        if invalid:
            new = rng.choice(labels)
        return op, (lambda c: c.rename_gate(old, new)), [op, old, new], True
    if op == 'mark_as_output':
        l = rng.choice(labels) if labels and not invalid else '__missing__'
        return op, (lambda c: c.mark_as_output(l)), [op, l], False
    if op == 'set_outputs':
        ls = [rng.choice(labels) for _ in range(rng.randint(0, 3))] if labels else []
        if invalid:
            ls.append('__missing__')
        return op, (lambda c: c.set_outputs(ls)), [op, ls], False
    if op == 'set_inputs':
        ls = list(inputs)
        rng.shuffle(ls)
        if invalid and labels:
            ls = ls[:-1] if rng.random() < 0.5 else ls + [rng.choice(labels)]
        return op, (lambda c: c.set_inputs(ls)), [op, ls], False
    if op == 'order_inputs':
        ls = rng.sample(inputs, rng.randint(0, len(inputs))) if inputs else []
        if invalid:
            ls = ls + ['__missing__']
        return op, (lambda c: c.order_inputs(ls)), [op, ls], False
    if op == 'order_outputs':
        outs = list(c.outputs)
        ls = rng.sample(outs, rng.randint(0, len(outs))) if outs else []
        if invalid:
            ls = ls + ['__missing__']
        return op, (lambda c: c.order_outputs(ls)), [op, ls], False
    if op == 'replace_inputs':
        if not inputs:
            return gen_op_fallback(c, rng)
        ch = rng.sample(inputs, rng.randint(1, min(2, len(inputs))))
        k = rng.randint(0, len(ch))
        tt, ff = ch[:k], ch[k:]
        if invalid and labels:
            ff = ff + [rng.choice(labels)]
        return op, (lambda c: c.replace_inputs(tt, ff)), [op, tt, ff], True
    if op in ('connect_right', 'connect_circuit_right', 'connect_left', 'connect_circuit_left', 'connect_inputs',
              'extend_circuit', 'add_circuit'):
        # small pools of tags and block names: label / block-name reuse after deletions is part of the histories
        onet = _small_other(rng, rng.choice(['oa', 'ob', 'oc']) if rng.random() < 0.5 else 'o%d' % step)
        other_desc = netgen.describe(onet)
        name = '' if rng.random() < 0.4 else (rng.choice(['B0', 'B1', 'B2']) if rng.random() < 0.6 else 'B%d_%d' % (step, rng.randrange(1000)))
        add_prefix = rng.random() < 0.7
        kw = {'name': name, 'add_prefix': add_prefix}

        def mk_other():
            o = netgen.build(onet)
            if rng.random() < 0.3 and o.size > len(o.inputs):
                inner = [l for l in o.gates if l not in o.inputs]
                o.make_block('ob', inner[:2], inner[:1])
            return o

        if op == 'connect_right':
            ogates = list(onet.gates)
            k = len(inputs)
            oc = [rng.choice(ogates) for _ in range(k)]
            if any(onet.gates[x][0] != 'INPUT' for x in oc):
                CUR['ctx'].count('right_connect_internal_connector')
            return op, (lambda c: c.connect_right(mk_other(), oc, **kw)), [op, other_desc, oc, kw], True
        if op == 'connect_circuit_right':
            ogates = list(onet.gates)
            k = rng.randint(0, min(len(inputs), 3))
            tc = rng.sample(inputs, k)
            oc = [rng.choice(ogates) for _ in range(k)]
            if invalid and labels:
                tc = tc + [rng.choice(labels)]
                oc = oc + [rng.choice(ogates)]
            if any(onet.gates[x][0] != 'INPUT' for x in oc):
                CUR['ctx'].count('right_connect_internal_connector')
            return 'connect_circuit', (lambda c: c.connect_circuit(mk_other(), tc, oc, right_connect=True, **kw)), \
                ['connect_circuit(right)', other_desc, tc, oc, kw], True
        if op == 'connect_left':
            tc = [rng.choice(labels) for _ in onet.inputs] if labels else []
            return op, (lambda c: c.connect_left(mk_other(), tc, **kw)), [op, other_desc, tc, kw], True
        if op == 'connect_circuit_left':
            k = rng.randint(0, len(onet.inputs)) if labels else 0
            oc = rng.sample(list(onet.inputs), k)
            tc = [rng.choice(labels) for _ in range(k)]
            if invalid and k:
                oc[-1] = rng.choice(list(onet.gates))
            return 'connect_circuit', (lambda c: c.connect_circuit(mk_other(), tc, oc, **kw)), \
                ['connect_circuit(left)', other_desc, tc, oc, kw], True
        if op == 'connect_inputs':
            # other must have as many inputs as self
            n = len(inputs)
            onet2 = netgen.rand_net(rng, n_in=n, max_g=4, n_out=1, const_operands=False) if n else onet
            onet2 = netgen.relabel(onet2, {l: 'ci%d_%s' % (step, l) for l in onet2.gates})
            d2 = netgen.describe(onet2)
            return op, (lambda c: c.connect_inputs(netgen.build(onet2), **kw)), [op, d2, kw], True
        if op == 'extend_circuit':
            rc = rng.random() < 0.5
            if rng.random() < 0.8:
                if rc:
                    onet3 = netgen.rand_net(rng, max_in=3, max_g=5, n_out=len(inputs), allow_repeat_outputs=False)
                else:
                    onet3 = netgen.rand_net(rng, n_in=len(set(c.outputs)) if len(set(c.outputs)) == len(c.outputs) else len(c.outputs), max_g=5, n_out=rng.randint(1, 2))
                onet3 = netgen.relabel(onet3, {l: 'ex%d_%s' % (step, l) for l in onet3.gates})
                d3 = netgen.describe(onet3)
                return op, (lambda c: c.extend_circuit(netgen.build(onet3), right_connect=rc, **kw)), [op, d3, rc, kw], True
            return op, (lambda c: c.extend_circuit(mk_other(), right_connect=rc, **kw)), [op, other_desc, rc, kw], True
        return op, (lambda c: c.add_circuit(mk_other(), **kw)), [op, other_desc, kw], True
    if op == 'replace_subcircuit':
        net = refsem.net_of(c)
        sl = netgen.random_slice(net, rng)
        if sl is None:
            return gen_op_fallback(c, rng)
        sins, sgates, roots = sl
        users = {}
        for l, (t, o) in net.gates.items():
            for x in o:
                users.setdefault(x, []).append(l)
        souts = [g for g in sgates if g in roots or g in net.outputs or any(u not in sgates for u in users.get(g, []))]
        sub = netgen.slice_net(net, sins, sgates, souts)
        style = rng.random()
        mp = {}
        if style < 0.5:
            # fresh labels for everything in the replacement
            mp = {l: 'rs%d_%s' % (step, l) for l in sub.gates}
        elif style < 0.8:
            mp = {l: 'rs%d_%s' % (step, l) for l in sub.gates if l not in sins and l not in souts}
        sub2 = netgen.relabel(sub, mp)
        imap = {i: mp.get(i, i) for i in sins}
        omap = {o: mp.get(o, o) for o in souts}
        if invalid and souts:
            omap.pop(souts[0])
        d = netgen.describe(sub2)
        return op, (lambda c: c.replace_subcircuit(netgen.build(sub2), dict(imap), dict(omap))), [op, d, imap, omap], True
    if op == 'make_block':
        if not labels:
            return gen_op_fallback(c, rng)
        gs = rng.sample(labels, rng.randint(1, min(4, len(labels))))
        outs = rng.sample(gs, 1)
        rest = [l for l in labels if l not in gs]
        ins = None if rng.random() < 0.5 else rng.sample(rest, rng.randint(0, min(2, len(rest))))
        nm = 'blk%d' % rng.randrange(1000) if not invalid or not c.blocks else rng.choice(list(c.blocks))
        return op, (lambda c: c.make_block(nm, gs, outs, ins)), [op, nm, gs, outs, ins], False
    if op == 'make_block_from_slice':
        net = refsem.net_of(c)
        sl = netgen.random_slice(net, rng)
        if sl is None:
            return gen_op_fallback(c, rng)
        sins, sgates, roots = sl
        if invalid and sins:
            sins = sins[:-1]
        nm = 'sl%d' % rng.randrange(1000)
        return op, (lambda c: c.make_block_from_slice(nm, sins, roots)), [op, nm, sins, roots], False
    if op == 'delete_block':
        if not c.blocks:
            return gen_op_fallback(c, rng)
        nm = rng.choice(list(c.blocks))
        return op, (lambda c: c.delete_block(nm)), [op, nm], False
    if op == 'remove_block':
        if not c.blocks:
            return gen_op_fallback(c, rng)
        nm = rng.choice(list(c.blocks))
        return op, (lambda c: c.remove_block(nm)), [op, nm], True
    if op == 'into_bench':
        return op, (lambda c: c.into_bench()), [op], True
    if op == 'copy':
        return '__copy__', (lambda c: ('NEW', copy.copy(c))), ['copy'], False
    if op == 'reparse':
        return 'from_bench_string', (lambda c: ('NEW', Circuit.from_bench_string(c.format_circuit()))), ['reparse'], False
    if op == 'block_into_circuit':
        if not c.blocks:
            return gen_op_fallback(c, rng)
        nm = rng.choice(list(c.blocks))
        return 'into_circuit', (lambda c: c.get_block(nm).into_circuit() and None), ['block.into_circuit', nm], False
    n = rng.randint(0, 3)
    return 'bare_circuit', (lambda c: Circuit.bare_circuit(n, prefix='b', set_as_outputs=rng.random() < 0.5) and None), ['bare', n], False


def gen_op_fallback(c, rng):
    l = _fresh(c, rng, 'in')
    return 'add_inputs', (lambda c: c.add_inputs([l])), ['add_inputs', [l]], False


def run_history(case, ctx):
    from cirbo.exceptions import CirboError
    CUR['case'] = case
    rng = random.Random(case['rseed'])
    net = netgen.from_description(case['net'])
    with monitor.suspended():
        c = netgen.build(net, rng=rng, shuffle_storage=case.get('shuffle', False))
        if case.get('start_block') and c.size:
            ls = list(c.gates)
            c.make_block('start', ls[: max(1, len(ls) // 2)], ls[:1])
    sib = sib_net = None
    if not case.get('big') and rng.random() < 0.3:
        # a second circuit holding the very same Gate objects: mutating one circuit must not reach into the other
        try:
            with monitor.suspended():
                from cirbo.core.circuit import Circuit as _C
                sib = _C()
                for g_ in c.gates.values():
                    sib.add_gate(g_)
                sib.set_outputs(list(c.outputs))
                sib_net = refsem.net_of(sib)
            ctx.count('sibling_sharing_gate_objects')
        except Exception as e:
            ctx.count('sibling_build_failed:' + type(e).__name__)
            sib = None
    hist = []
    CUR['hist'] = hist
    n_ok = 0
    rel_changed = False
    for step in range(case['length']):
        nviol = len(ctx.violations) + sum(ctx._viol_count.values())
        with monitor.suspended():
            backup = copy.deepcopy(c)
            try:
                opname, thunk, desc, changes = gen_op(c, rng, step)
            except Exception as e:  # generator trouble is never a verdict
                ctx.count('generator_failed:' + type(e).__name__)
                continue
        hist.append(desc)
        try:
            r = thunk(c)
            outcome = 'ok'
            if isinstance(r, tuple) and r and r[0] == 'NEW':
                if rng.random() < 0.5:
                    c = r[1]
            n_ok += 1
            rel_changed = rel_changed or changes
        except CirboError as e:
            outcome = type(e).__name__
            c = backup
        except Exception as e:
            # undocumented exception types on invalid arguments: not part of "return normally"
            outcome = type(e).__name__
            c = backup
        hist[-1] = [desc, outcome]
        if sib is not None:
            with monitor.suspended():
                now_net = refsem.net_of(sib)
            if now_net.gates != sib_net.gates or now_net.inputs != sib_net.inputs or now_net.outputs != sib_net.outputs:
                ctx.violation('Circuit.' + opname, 'invariant', 'other_circuit_changed',
                              '%s on one circuit changed another circuit assembled from the same Gate objects' % opname,
                              dict(case, history=[str(h)[:200] for h in hist]))
                sib = None
        ctx.count('op:%s:%s' % (opname, 'ok' if outcome == 'ok' else 'raised'))
        ctx.mon(opname, 'driven')
        if c.size > 60 and not case.get('big'):
            break
        if len(ctx.violations) + sum(ctx._viol_count.values()) != nviol:
            ctx.count('history_stopped_after_violation')
            break
    key = case['shape'] + '|' + '|'.join('%s:%s' % (h[0][0] if isinstance(h[0], list) else h[0], h[1]) for h in hist)
    ctx.case(key, n_ok >= 2 and rel_changed, cls='shape:' + case['shape'],
             sample={'start': case['net'], 'history': [[str(h[0])[:160], h[1]] for h in hist[:12]]})
    CUR['hist'] = None


def gen_case(rng, spec):
    if spec.get('kind') == 'deep':   # histories that start from a circuit with a long dependency chain
        return {'kind': 'history', 'shape': 'deep', 'net': netgen.deep_description(rng, spec['depths']),
                'rseed': rng.getrandbits(32), 'shuffle': False, 'length': rng.randint(3, 8), 'start_block': rng.random() < 0.3,
                'big': True}
    shape = rng.choice(netgen.SHAPES)
    net = netgen.rand_net(rng, shape=shape, max_in=4, max_g=8, max_arity=4)
    return {'kind': 'history', 'shape': shape, 'net': netgen.describe(net), 'rseed': rng.getrandbits(32),
            'shuffle': rng.random() < 0.2, 'length': rng.randint(1, spec.get('max_len', 12)),
            'start_block': rng.random() < 0.3}


CROSS = ['c10', 'c14', 'c19', 'c07', 'c09', 'c13', 'c03', 'c11', 'c16']


def run_cross(spec, ctx):
    """Drive the workloads of other properties (their own monitors NOT installed) under the C02
    invariant monitors: gadgets, composition chains, rewrites, passes, parser, codec."""
    import importlib
    from vt.ctx import Ctx
    names = spec.get('modules') or CROSS
    per = spec['count']
    for name in names:
        mod = importlib.import_module('vt.props.' + name)
        side = Ctx(name.upper(), {'seed': ctx.seed, 'shard': ctx.shard, 'budget_s': ctx.budget})
        # the other module's bookkeeping goes to `side`; only C02's monitors report into ctx
        for holder in (getattr(mod, 'CUR', None), getattr(getattr(mod, 'A', None), 'CUR', None),
                       getattr(getattr(mod, '_simp', None), 'CUR', None)):
            if isinstance(holder, dict):
                holder['ctx'] = side
        rng = random.Random('cross:%s:%s:%s' % (ctx.seed, ctx.shard, name))
        for i in range(per):
            if ctx.out_of_time():
                ctx.count('stopped_on_budget')
                return
            try:
                if name in ('c07', 'c09'):
                    case = mod.gen_case(rng, {'max_n': 10}) if name == 'c07' else mod.gen_add_case(rng, 5)
                    if case.get('func', '').startswith('generate_'):
                        continue
                    CUR['case'] = {'kind': 'cross', 'module': name, 'case': case}
                    CUR['hist'] = [name]
                    (mod.check_case if name == 'c07' else mod.run_call)(case, side)
                else:
                    case = mod.gen_case(rng, {'max_g': 10, 'max_in': 5, 'max_len': 8})
                    CUR['case'] = {'kind': 'cross', 'module': name, 'case': case}
                    CUR['hist'] = [name]
                    mod.check_case(case, side)
                ctx.count('cross:' + name)
                ctx.case('cross:%s:%s' % (name, i), True, cls='cross')
            except Exception as e:
                ctx.count('cross_driver_error:%s:%s' % (name, type(e).__name__))
    CUR['hist'] = None


def run_shard(spec, ctx):
    install(ctx)
    if spec.get('kind') == 'suite':
        from vt import suite
        import sys
        suite.run(sys.modules[__name__], ctx, select=spec.get('select'))
        return
    if spec.get('kind') == 'cross':
        run_cross(spec, ctx)
        return
    for i in range(spec['count']):
        if ctx.out_of_time():
            ctx.count('stopped_on_budget')
            break
        case = gen_case(ctx.rng, spec)
        try:
            run_history(case, ctx)
        except Exception as e:  # harness trouble: inconclusive for this history, never a violation
            ctx.count('driver_error:' + type(e).__name__)
            ctx.info['driver_errors'] = ctx.info.get('driver_errors', 0) + 1


def replay(case, ctx):
    install(ctx)
    run_history(case, ctx)
