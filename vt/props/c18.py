"""C18 - simplification passes achieve their stated effect; pipelines equal sequencing.

Predicate monitors on the outputs of the real passes (attached to
Transformer.transform) and a sequencing oracle: (A | B).transform(c),
apply_transformers(c, [A, B]), nested compositions and cleanup must equal (==)
the manual one-after-another application of the constituent passes."""
from __future__ import annotations

import random

from vt import monitor, netgen, refsem
from vt.props import _simp

ID = 'C18'
LEVEL = 'exploration'
RULE = ('the C03 workload with an own seed stream (circuits whose unary gates are all negations / all buffers are '
        'generated on purpose); per-pass effect predicates on every leaf pass; pipelines of length 2..6 incl. nested '
        'compositions, repeated idempotent passes and implied post-passes compared with manual sequencing. distinct = '
        '(structural hash, pass or pipeline); non-trivial = the pass removed/rewired >=1 gate, or the pipeline has >=2 '
        'distinct pass types.')
ANCHOR_FILES = _simp.ANCHOR_FILES
ASSUMPTIONS = ['vt.refsem truth tables for the equivalence predicate; Circuit.__eq__ (gates, inputs, outputs) for pipeline equality']
REQUIRED = {'mon:transform.checked': 300, 'effect:RRG': 50, 'effect:RRG_in': 50, 'effect:MDG': 50, 'effect:MEG': 50,
            'effect:MUO': 50, 'muo_all_negations': 20, 'muo_all_buffers': 20, 'rrg_idempotence': 50,
            'pipeline_vs_manual': 100, 'cleanup_vs_manual': 50, 'deep_circuits': 2, 'user_defined_pass': 50}


def shards(tier, seed):
    per = 300 if tier == 'quick' else 8000
    budget = 45 if tier == 'quick' else 540
    return [{'kind': 'random', 'count': per, 'budget_s': budget, 'max_g': 12 if tier == 'quick' else 30,
             'max_in': 5 if tier == 'quick' else 6} for _ in range(16)] + [
        {'kind': 'deep', 'count': 2 if tier == 'quick' else 20, 'budget_s': budget,
         'depths': netgen.DEEP_QUICK if tier == 'quick' else netgen.DEEP_THOROUGH}]


def _manual(c, leaves):
    """Apply the constituent passes one after another (each through its own public transform)."""
    for l in leaves:
        c = _simp.leaf(l).transform(c)
    return c


_USER_CLS = {}


def user_pass(op, pre, post):
    """A pass the caller defines (the documented extension point: subclass Transformer, name the passes it needs before
    and after in the super call).  Its own step keeps the function: 'copy' returns a copy, 'wrap' puts NOT(NOT(.)) on
    every output - work for the passes it asks for afterwards."""
    import copy as _copy
    from cirbo.core.circuit.transformer import Transformer
    from cirbo.core.circuit import gate as G
    if 'cls' not in _USER_CLS:
        class VtUserPass(Transformer):
            def __init__(self, op_, pre_=(), post_=()):
                super().__init__(pre_transformers=tuple(pre_), post_transformers=tuple(post_))
                self._op = op_

            def _transform(self, circuit):
                c = _copy.copy(circuit)
                if self._op == 'wrap':
                    outs = []
                    for k, o in enumerate(list(c.outputs)):
                        a, b = 'vtw%d_a' % k, 'vtw%d_b' % k
                        if c.has_gate(a) or c.has_gate(b):
                            outs.append(o)
                            continue
                        c.emplace_gate(a, G.NOT, (o,))
                        c.emplace_gate(b, G.NOT, (a,))
                        outs.append(b)
                    c.set_outputs(outs)
                return c
        _USER_CLS['cls'] = VtUserPass
    return _USER_CLS['cls'](op, [_simp.leaf(x) for x in pre], [_simp.leaf(x) for x in post])


def check_case(case, ctx):
    from cirbo.core.circuit.transformer import Transformer
    from cirbo.minimization.simplification import cleanup
    _simp.CUR['case'] = case
    net = netgen.from_description(case['net'])
    if 'deep' in case['net']:
        ctx.count('deep_circuits')
    rng = random.Random(case['rseed'])
    with monitor.suspended():
        try:
            c = netgen.build(net, rng=rng, shuffle_storage=case.get('shuffle', False))
        except Exception as e:
            ctx.count('build_failed:' + type(e).__name__)
            return
        if case.get('edited'):
            case = dict(case, edits_applied=netgen.random_edits(c, rng))
            _simp.CUR['case'] = case
            net = refsem.net_of(c)
            ctx.count('edited_circuits')
    sh = refsem.structural_hash(net)

    def V(api, disc, msg, extra):
        ctx.violation(api, 'wrong_result', disc, msg, dict(case, failing=extra))

    # (1) stated effects of every leaf pass: the monitor on transform decides
    for l in _simp.LEAVES:
        try:
            r = _simp.leaf(l).transform(c)
        except Exception as e:
            ctx.unexpected('pass:' + l, e, dict(case, failing=l))
            continue
        ctx.count('effect:' + l)
        with monitor.suspended():
            changed = not (r == c)
        ctx.case('%s:effect:%s' % (sh, l), changed, cls='shape:' + case['shape'],
                 sample={'net': case['net'], 'pass': l, 'size_before': c.size, 'size_after': r.size} if changed else None)
        if l in ('RRG', 'RRG_in'):
            try:
                r2 = _simp.leaf(l).transform(r)
                ctx.count('rrg_idempotence')
                with monitor.suspended():
                    if not (r2 == r):
                        V('pass:' + l, 'not_idempotent', 'applying %s twice differs from applying it once' % l, l)
            except Exception as e:
                ctx.unexpected('pass:' + l, e, dict(case, failing=[l, l]))
    # (2) pipelines equal sequencing
    for form, desc in case['calls']:
        try:
            if form == 'transform':
                res = _simp.build_pipe(desc).transform(c)
                leaves = _simp.flat(desc)
            elif form == 'list':
                ts_ = _simp.flavour(rng, [_simp.build_pipe(d) for d in desc])
                if not isinstance(ts_, (list, tuple)):
                    ctx.count('passes_as_one_shot_iterable')
                res = Transformer.apply_transformers(c, ts_)
                leaves = sum((_simp.flat(d) for d in desc), [])
            elif form == 'composition':
                res = Transformer.apply_transformers(c, _simp.build_pipe(desc))
                leaves = _simp.flat(desc)
            elif form == 'nested':
                from cirbo.core.circuit.transformer import TransformerComposition
                inner = TransformerComposition([_simp.build_pipe(d) for d in desc[0]])
                res = TransformerComposition([inner] + [_simp.build_pipe(d) for d in desc[1]]).transform(c)
                leaves = sum((_simp.flat(d) for d in desc[0] + desc[1]), [])
            elif form == 'cleanup':
                res = cleanup(c, use_heavy=desc)
                leaves = ['RRG', 'MUO', 'MDG'] + (['MEG'] if desc else [])
            elif form in ('user', 'user_in_list'):
                # a caller-defined pass that names library passes to run before / after it: the passes those imply in
                # turn belong to the pipeline as well ("implied pre/post passes", at any depth)
                op, pre, post = desc
                up = user_pass(op, pre, post)
                res = up.transform(c) if form == 'user' else Transformer.apply_transformers(c, [up])
                leaves = list(pre) + ['user:' + op] + list(post)
                ctx.count('user_defined_pass')
                man = c
                for l in pre:
                    man = _simp.leaf(l).transform(man)
                man = user_pass(op, (), ())._transform(man)
                for l in post:
                    man = _simp.leaf(l).transform(man)
            else:
                continue
            if form not in ('user', 'user_in_list'):
                man = _manual(c, leaves)
        except Exception as e:
            ctx.unexpected('pipeline:%s' % form, e, dict(case, failing=[form, desc]))
            continue
        ctx.count('cleanup_vs_manual' if form == 'cleanup' else 'pipeline_vs_manual')
        with monitor.suspended():
            same = (res == man)
        if not same:
            V('pipeline:' + form, 'differs_from_sequencing',
              '%s %r gives a circuit different from applying %r one after another (sizes %d vs %d)' % (
                  form, desc, leaves, res.size, man.size), [form, desc])
        ctx.case('%s:%s:%r' % (sh, form, desc), len(set(leaves)) >= 2, cls='form:' + form)


def gen_case(rng, spec):
    shape, net = _simp.gen_net(rng, spec)
    calls = []
    for _ in range(2):
        calls.append(['transform', _simp.gen_pipeline(rng)])
    calls.append(['list', [_simp.gen_pipeline(rng) for _ in range(rng.randint(1, 3))]])
    calls.append(['composition', ['pipe'] + [rng.choice(_simp.LEAVES) for _ in range(rng.randint(2, 5))]])
    calls.append(['nested', [[rng.choice(_simp.LEAVES) for _ in range(rng.randint(1, 2))],
                             [_simp.gen_pipeline(rng) for _ in range(rng.randint(1, 2))]]])
    # adjacent idempotent duplicates and implied post-passes on purpose
    calls.append(['list', ['MUO', 'RRG', 'RRG', 'MUO']])
    calls.append(['transform', ['pipe', 'RRG', 'RRG_in', 'RRG_in', 'MDG', 'RRG']])
    calls.append(['cleanup', False])
    calls.append(['cleanup', True])
    calls.append([rng.choice(['user', 'user_in_list']),
                  [rng.choice(['copy', 'wrap']), [rng.choice(_simp.LEAVES) for _ in range(rng.randint(0, 2))],
                   [rng.choice(_simp.LEAVES) for _ in range(rng.randint(1, 2))]]])
    case = {'kind': 'random', 'shape': shape, 'net': netgen.describe(net), 'rseed': rng.getrandbits(32),
            'shuffle': rng.random() < 0.25, 'calls': calls, 'edited': rng.random() < 0.3}
    if spec.get('kind') == 'deep':   # a long dependency chain instead (ripple / iterated constructions)
        case.update(net=netgen.deep_description(rng, spec['depths']), shape='deep', shuffle=False, edited=False)
    return case


def run_shard(spec, ctx):
    _simp.install(ctx, 'C18')
    for i in range(spec['count']):
        if ctx.out_of_time():
            ctx.count('stopped_on_budget')
            break
        case = gen_case(ctx.rng, spec)
        case['_rerun_shard'] = {'spec': {k: v for k, v in spec.items() if k not in ('budget_s',)}, 'index': i}
        check_case(case, ctx)


def replay(case, ctx):
    _simp.install(ctx, 'C18')
    check_case(case, ctx)
