"""C03 - simplification passes preserve the function, the interface and their argument.

Post-condition monitor on the real Transformer.transform / apply_transformers /
cleanup: truth table (reference interpreter), interface, argument snapshot,
size, well-formedness of the result."""
from __future__ import annotations

import random

from vt import monitor, netgen, refsem
from vt.props import _simp

ID = 'C03'
LEVEL = 'exploration'
RULE = ('random circuits over all gate types biased to NOT/LNOT/RNOT and IFF/LIFF/RIFF chains feeding symmetric and '
        'asymmetric gates, literal duplicates (operand order permuted), functionally-equal-but-different gates, constants, '
        'n-ary gates, outputs that are inputs / repeated / unary chains, dead logic; x 5 passes, random pipelines (| operator, '
        'nested, lists, repeated idempotent passes), cleanup light/heavy; all 2^n assignments. distinct = (structural hash, '
        'pipeline); non-trivial = the pass changed the netlist.')
ANCHOR_FILES = _simp.ANCHOR_FILES
ASSUMPTIONS = ['vt.refsem truth tables; vt.wf for the result']
REQUIRED = {'mon:transform.checked': 200, 'mon:apply_transformers.checked': 100, 'mon:cleanup.checked': 50,
            'changed': 100, 'form:pipe': 50, 'form:list': 50, 'leaf:RRG_in': 20, 'leaf:MEG': 20, 'leaf:MUO': 20,
            'leaf:MDG': 20, 'leaf:RRG': 20, 'deep_circuits': 2, 'arguments_with_blocks': 30}


def shards(tier, seed):
    per = 300 if tier == 'quick' else 10000
    budget = 45 if tier == 'quick' else 540
    _out = [{'kind': 'random', 'count': per, 'budget_s': budget, 'max_g': 12 if tier == 'quick' else 30,
             'max_in': 5 if tier == 'quick' else 6} for _ in range(16)]
    _out.append({'kind': 'deep', 'count': 2 if tier == 'quick' else 20, 'budget_s': budget,
                 'depths': netgen.DEEP_QUICK if tier == 'quick' else netgen.DEEP_THOROUGH})
    if tier == 'thorough':
        _out.append({'kind': 'suite', 'select': ['tests/cirbo/minimization', 'tests/cirbo/core'], 'budget_s': 900})
    return _out


def check_case(case, ctx):
    from cirbo.core.circuit.transformer import Transformer
    from cirbo.minimization.simplification import cleanup
    _simp.CUR['case'] = case
    net = netgen.from_description(case['net'])
    if 'deep' in case['net']:
        ctx.count('deep_circuits')
    rng = random.Random(case['rseed'])
    with monitor.suspended():
        try:
            c = netgen.build(net, rng=rng, shuffle_storage=case.get('shuffle', False))
        except Exception as e:
            ctx.count('build_failed:' + type(e).__name__)
            return
        if case.get('edited'):
            case = dict(case, edits_applied=netgen.random_edits(c, rng))
            _simp.CUR['case'] = case
            net = refsem.net_of(c)
            ctx.count('edited_circuits')
        if case['rseed'] % 4 == 1 and netgen.mark_up(c, random.Random(case['rseed'] ^ 0x5a5a)):
            ctx.count('arguments_with_blocks')
    sh = refsem.structural_hash(net)
    for form, desc in case['calls']:
        nviol = sum(ctx._viol_count.values())
        try:
            _simp.CUR.pop('intended', None)
            if form == 'transform':
                t_ = _simp.build_pipe(desc)
                _simp.CUR['intended'] = _simp.flat(desc)
                res = t_.transform(c)
            elif form == 'list':
                ts_ = _simp.flavour(rng, [_simp.build_pipe(d) for d in desc])
                if not isinstance(ts_, (list, tuple)):
                    ctx.count('passes_as_one_shot_iterable')
                _simp.CUR['intended'] = sum((_simp.flat(d) for d in desc), [])
                res = Transformer.apply_transformers(c, ts_)
            elif form == 'composition':
                t_ = _simp.build_pipe(desc)
                _simp.CUR['intended'] = _simp.flat(desc)
                res = Transformer.apply_transformers(c, t_)
            elif form == 'cleanup':
                res = cleanup(c, use_heavy=desc)
            else:
                continue
        except Exception as e:
            ctx.unexpected('simplification:%s' % form, e, dict(case, failing=[form, desc]))
            continue
        with monitor.suspended():
            changed = not (res == c)
            if res is not c:
                from vt import wf as _wf
                snap = _wf.deep_snapshot(c)
                netgen.scribble(res, rng)
                if _wf.deep_snapshot(c) != snap:
                    ctx.violation('simplification:%s' % form, 'wrong_result', 'result_shares_state_with_argument',
                                  'editing the returned circuit changed the argument circuit', dict(case, failing=[form, desc]))
                ctx.count('result_scribbled')
        if changed:
            ctx.count('changed')
        ctx.count('form:' + ('pipe' if form in ('transform', 'composition') and not isinstance(desc, str) else form))
        for l in (_simp.flat(desc) if form in ('transform', 'composition') else
                  sum((_simp.flat(d) for d in desc), []) if form == 'list' else []):
            ctx.count('leaf:' + l)
        ctx.case('%s:%s:%r' % (sh, form, desc), changed, cls='shape:' + case['shape'],
                 sample={'net': case['net'], 'call': [form, desc], 'size_before': c.size, 'size_after': res.size}
                 if changed else None)


def gen_case(rng, spec):
    shape, net = _simp.gen_net(rng, spec)
    calls = [['transform', l] for l in _simp.LEAVES]
    for _ in range(2):
        calls.append(['transform', _simp.gen_pipeline(rng)])
    calls.append(['list', [_simp.gen_pipeline(rng) for _ in range(rng.randint(1, 3))]])
    calls.append(['composition', ['pipe'] + [rng.choice(_simp.LEAVES) for _ in range(rng.randint(2, 4))]])
    calls.append(['cleanup', False])
    calls.append(['cleanup', True])
    case = {'kind': 'random', 'shape': shape, 'net': netgen.describe(net), 'rseed': rng.getrandbits(32),
            'shuffle': rng.random() < 0.25, 'calls': calls, 'edited': rng.random() < 0.3}
    if spec.get('kind') == 'deep':   # a long dependency chain instead (ripple / iterated constructions)
        case.update(net=netgen.deep_description(rng, spec['depths']), shape='deep', shuffle=False, edited=False)
    return case


def run_shard(spec, ctx):
    _simp.install(ctx, 'C03')
    if spec.get('kind') == 'suite':
        from vt import suite
        import sys
        suite.run(sys.modules[__name__], ctx, select=spec.get('select'))
        return
    for i in range(spec['count']):
        if ctx.out_of_time():
            ctx.count('stopped_on_budget')
            break
        case = gen_case(ctx.rng, spec)
        case['_rerun_shard'] = {'spec': {k: v for k, v in spec.items() if k not in ('budget_s',)}, 'index': i}
        check_case(case, ctx)


def replay(case, ctx):
    _simp.install(ctx, 'C03')
    check_case(case, ctx)
