"""C11 - bench text round-trips and the parser is faithful.

Monitors: (a) post-condition on the real format_circuit / save_to_file: parsing
the produced text (or the saved file) gives back an equal circuit with equal
operand, input and output order; (b) post-condition on from_bench_string /
from_bench_file: an independent bench reader (vt.benchref) parses the same text
and the returned circuit must have the reference's inputs, outputs, gate
types/operands and truth tables."""
from __future__ import annotations

import os
import random
import re
import tempfile

from vt import benchref, monitor, netgen, refsem

ID = 'C11'
LEVEL = 'exploration'
RULE = ('random netlists over all gate types and arities (constants with and without operands, n-ary, repeated operands, '
        'zero/repeated outputs, outputs that are inputs) with identifier labels incl. digit-only, bracket/dot labels and '
        'labels beginning with input/output/vdd/buff keywords, shuffled storage order; round trip through format_circuit '
        'and through a file; independent printer renders the netlist in random admissible layouts (declaration order incl. '
        'use before definition, operator letter case, comments, blank lines, spacing, BUFF/vdd aliases). distinct = '
        '(structural hash, label class, layout seed); non-trivial = asymmetric or n-ary gate present, or keyword-prefixed '
        'label, or storage order differs from definition order.')
ANCHOR_FILES = ['cirbo/core/parser/bench.py', 'cirbo/core/parser/abstract.py', 'cirbo/core/circuit/circuit.py',
                'cirbo/core/circuit/gate.py']
ASSUMPTIONS = ['vt.benchref is the definition of what a bench text denotes', 'labels are bench identifiers: [A-Za-z0-9_.\\[\\]@]+']
REQUIRED = {'mon:format_circuit.checked': 200, 'mon:save_to_file.checked': 20, 'mon:from_bench_string.checked': 200,
            'mon:from_bench_file.checked': 20, 'labels:keyword': 20, 'labels:digits': 20, 'labels:brackets': 20,
            'layout:use_before_def': 50, 'const_with_operands': 10, 'printed_after_rewrite': 20,
            'pass_ran:minimize_subcircuits': 20, 'pass_ran:cleanup': 10, 'bigfile_roundtrips': 16, 'broken_text_then_valid': 100}

CUR = {'ctx': None, 'case': None, 'admissible': False}
_IDENT = re.compile(r'^[A-Za-z0-9_.\[\]@]+$')


def shards(tier, seed):
    per = 600 if tier == 'quick' else 25000
    budget = 40 if tier == 'quick' else 500
    _out = [{'kind': 'random', 'count': per, 'budget_s': budget, 'max_g': 12 if tier == 'quick' else 30}
            for _ in range(16)]
    _out.append({'kind': 'deep', 'count': 2 if tier == 'quick' else 20, 'budget_s': budget,
                 'depths': netgen.DEEP_QUICK if tier == 'quick' else netgen.DEEP_THOROUGH})
    pads = list(range(0, 32 if tier == 'quick' else 160))
    nparts = 4 if tier == 'quick' else 8
    for part in range(nparts):
        sub = pads[part::nparts]
        _out.append({'kind': 'bigfile', 'gates': 1500 if tier == 'quick' else 4000, 'paddings': sub, 'count': len(sub),
                     'nseed': 12345 + seed, 'budget_s': budget})
    _out += [{'kind': 'after_pass', 'count': 40 if tier == 'quick' else 3000, 'budget_s': budget} for _ in range(4)]
    if tier == 'thorough':
        _out.append({'kind': 'suite', 'select': ['tests/cirbo/core'], 'budget_s': 900})
    return _out


def _labels_ok(c):
    return all(_IDENT.match(l) for l in c.gates)


def _compare_exact(api, orig, parsed, ctx):
    """parsed must equal orig: gates (type, operand order), input order, output order."""
    def V(disc, msg):
        ctx.violation(api, 'wrong_result', disc, msg, CUR['case'])
    if list(parsed.inputs) != list(orig.inputs):
        V('input_order', 'inputs %r re-parsed as %r' % (list(orig.inputs), list(parsed.inputs)))
        return False
    if list(parsed.outputs) != list(orig.outputs):
        V('output_order', 'outputs %r re-parsed as %r' % (list(orig.outputs), list(parsed.outputs)))
        return False
    if set(parsed.gates) != set(orig.gates):
        V('gate_set', 'gates lost %r / invented %r' % (sorted(set(orig.gates) - set(parsed.gates))[:5],
                                                    sorted(set(parsed.gates) - set(orig.gates))[:5]))
        return False
    for l, g in orig.gates.items():
        p = parsed.gates[l]
        if p.gate_type.name != g.gate_type.name:
            V('gate_type', 'gate %r: %s re-parsed as %s' % (l, g.gate_type.name, p.gate_type.name))
            return False
        if tuple(p.operands) != tuple(g.operands):
            V('operands', 'gate %r (%s): operands %r re-parsed as %r' % (l, g.gate_type.name, tuple(g.operands), tuple(p.operands)))
            return False
    if not (parsed == orig):
        V('not_equal', 're-parsed circuit != original although gates/inputs/outputs match')
        return False
    return True


def post_format(st, args, kwargs, result):
    self = args[0]
    ctx = CUR['ctx']
    if not _labels_ok(self):
        ctx.mon('format_circuit', 'skipped_labels')
        return
    from cirbo.core.circuit import Circuit
    with monitor.suspended():
        try:
            parsed = Circuit.from_bench_string(result)
        except Exception as e:
            ctx.violation('Circuit.format_circuit', 'exception', 'reparse:' + type(e).__name__,
                          'text produced by format_circuit cannot be parsed: %r' % (e,), CUR['case'])
            ctx.mon('format_circuit')
            return
    ctx.mon('format_circuit')
    _compare_exact('Circuit.format_circuit', self, parsed, ctx)


def post_save(st, args, kwargs, result):
    self = args[0]
    path = args[1] if len(args) > 1 else kwargs['path']
    ctx = CUR['ctx']
    if not _labels_ok(self):
        ctx.mon('save_to_file', 'skipped_labels')
        return
    from cirbo.core.circuit import Circuit
    with monitor.suspended():
        try:
            parsed = Circuit.from_bench_file(path)
        except Exception as e:
            ctx.violation('Circuit.save_to_file', 'exception', 'reload:' + type(e).__name__,
                          'file written by save_to_file cannot be loaded: %r' % (e,), CUR['case'])
            ctx.mon('save_to_file')
            return
    ctx.mon('save_to_file')
    _compare_exact('Circuit.save_to_file', self, parsed, ctx)


def _check_against_reference(api, text, result, ctx):
    try:
        ref = benchref.parse(text)
    except benchref.BenchSyntax:
        ctx.mon(api.split('.')[-1], 'skipped_reference_rejects')
        return
    name = api.split('.')[-1]
    ctx.mon(name)

    def V(disc, msg):
        ctx.violation(api, 'wrong_result', disc, msg, CUR['case'])

    got = refsem.net_of(result)
    if got.inputs != ref.inputs:
        V('inputs', 'inputs %r, the text declares %r' % (got.inputs, ref.inputs))
        return
    if got.outputs != ref.outputs:
        V('outputs', 'outputs %r, the text declares %r' % (got.outputs, ref.outputs))
        return
    if set(got.gates) != set(ref.gates):
        V('gate_set', 'gates missing %r / extra %r' % (sorted(set(ref.gates) - set(got.gates))[:5],
                                                   sorted(set(got.gates) - set(ref.gates))[:5]))
        return
    for l, (t, ops) in ref.gates.items():
        gt, gops = got.gates[l]
        if gt != t:
            V('gate_type', 'gate %r parsed as %s, the text says %s' % (l, gt, t))
            return
        if gops != ops:
            V('operands', 'gate %r operands %r, the text says %r' % (l, gops, ops))
            return
    if len(ref.inputs) <= 8:
        try:
            a = refsem.output_ints(ref)[0]
            b = refsem.output_ints(got)[0]
        except RecursionError:
            return
        if a != b:
            V('function', 'parsed circuit computes %r, the text denotes %r' % (b, a))
            return
        # "computes" as the parsed object itself computes: its own truth table (the Gate objects the parser built dispatch to
        # the library's operators) against what the text denotes
        if len(ref.inputs) <= 6 and ref.outputs:
            try:
                with monitor.suspended():
                    tt = result.get_truth_table()
                own = [sum((1 << k) for k, v in enumerate(row) if v) for row in tt]
                want = list(a)   # same row numbering: input 0 is the most significant index bit in both
                ctx.count('parsed_object_evaluated')
                if own != want:
                    V('object_function', 'the parsed object evaluates to %r, the text denotes %r' % (own, want))
            except Exception as e:
                ctx.count('parsed_object_evaluation_failed:' + type(e).__name__)


def post_from_string(st, args, kwargs, result):
    text = args[0] if args else kwargs['string']
    _check_against_reference('Circuit.from_bench_string', text, result, CUR['ctx'])


def raise_from_string(st, args, kwargs, exc):
    if CUR['admissible']:
        CUR['ctx'].violation('Circuit.from_bench_string', 'exception', type(exc).__name__,
                             'admissible bench text rejected: %r' % (exc,), CUR['case'])


def post_from_file(st, args, kwargs, result):
    path = args[0] if args else kwargs['file_path']
    try:
        text = open(path).read()
    except Exception:
        return
    _check_against_reference('Circuit.from_bench_file', text, result, CUR['ctx'])


def install(ctx):
    from cirbo.core.circuit import Circuit
    CUR['ctx'] = ctx
    monitor.attach(Circuit, 'format_circuit', post=monitor.outer_only(post_format), counter=ctx.moncounter('format_circuit'))
    monitor.attach(Circuit, 'save_to_file', post=monitor.outer_only(post_save), counter=ctx.moncounter('save_to_file'))
    monitor.attach(Circuit, 'from_bench_string', post=post_from_string, on_raise=raise_from_string,
                   counter=ctx.moncounter('from_bench_string'))
    monitor.attach(Circuit, 'from_bench_file', post=post_from_file, counter=ctx.moncounter('from_bench_file'))


def check_case(case, ctx):
    from cirbo.core.circuit import Circuit
    CUR['case'] = case
    net = netgen.from_description(case['net'])
    rng = random.Random(case['rseed'])
    with monitor.suspended():
        try:
            c = netgen.build(net, rng=rng, shuffle_storage=case.get('shuffle', False))
        except Exception as e:
            ctx.count('build_failed:' + type(e).__name__)
            return
    if case.get('edited'):
        with monitor.suspended():
            case = dict(case, edits_applied=netgen.random_edits(c, rng))
            CUR['case'] = case
            net = refsem.net_of(c)
        ctx.count('edited_circuits')
    sh = refsem.structural_hash(net)
    style = case['label_style']
    ctx.count('labels:' + style)
    if any(t in refsem.CONST and ops for t, ops in net.gates.values()):
        ctx.count('const_with_operands')
    storage_differs = list(c.gates) != list(net.gates)
    asym = any(t in refsem.BINARY_ONLY or len(ops) > 2 for t, ops in net.gates.values())
    kw = style == 'keyword'
    nontrivial = asym or kw or storage_differs
    # (a) round trip: the monitors on format_circuit / save_to_file decide
    try:
        c.format_circuit()
        if case.get('file'):
            d = tempfile.mkdtemp(prefix='vt_c11_')
            try:
                p = os.path.join(d, 'sub', 'c.bench')
                c.save_to_file(p)
                Circuit.from_bench_file(p)
            finally:
                import shutil
                shutil.rmtree(d, ignore_errors=True)
    except Exception as e:
        ctx.unexpected('round trip', e, case)
    ctx.case('%s:%s:rt' % (sh, style), nontrivial, cls='check:roundtrip')
    # (b) fidelity: independent printer, admissible layouts; the monitor on from_bench_string decides
    for k in range(case.get('layouts', 2)):
        lrng = random.Random('%s:%d' % (case['rseed'], k))
        # the reference reader cannot express constants *with* operands through the vdd alias etc.; render handles it
        text = benchref.render(net, lrng)
        if lrng.random() < 0.25:
            # a broken text first (as when a user fixes a typo and loads again): it uses labels before defining them and
            # then fails on a malformed line; whatever the parser did with it must not influence the next, well-formed text
            bad = lrng.choice(['vt_bad = FOO(vt_fwd1)', 'vt_bad = AND(vt_fwd1', 'vt_bad = AND()', 'vt_bad AND(vt_fwd1, vt_fwd2)',
                               'INPUT(vt_fwd1', 'vt_bad = NOT(vt_fwd1, vt_fwd2, vt_fwd3)'])
            lines = text.split('\n')
            cut = lrng.randrange(len(lines) + 1)
            broken = '\n'.join(['vt_u1 = NOT(vt_fwd1)', 'vt_u2 = AND(vt_fwd2, vt_u1)'] + lines[:cut] + [bad] + lines[cut:])
            CUR['admissible'] = False
            try:
                Circuit.from_bench_string(broken)
                ctx.count('broken_text_accepted')
            except Exception:
                ctx.count('broken_text_then_valid')
        CUR['case'] = dict(case, text=text)
        CUR['admissible'] = True
        try:
            Circuit.from_bench_string(text)
        except Exception:
            pass
        finally:
            CUR['admissible'] = False
        # use-before-definition present?
        pos = {}
        for i, ln in enumerate(text.split('\n')):
            if '=' in ln and not ln.startswith('#'):
                pos[ln.split('=')[0].strip()] = i
            elif ln.startswith('INPUT'):
                pos[ln[6:].strip(') ')] = i
        ubd = any(pos.get(o, -1) > pos.get(l, 10 ** 9) for l, (t, ops) in net.gates.items() for o in ops)
        if ubd:
            ctx.count('layout:use_before_def')
        ctx.case('%s:%s:layout:%d' % (sh, style, k), nontrivial or ubd, cls='check:fidelity',
                 sample={'text': text} if (nontrivial and ubd and len(text) < 700) else None)
    CUR['case'] = case


def check_after_pass(case, ctx):
    """Print - let a library pass rewrite - print again.  The circuits a user saves are mostly ones the library's own
    passes produced or edited; the round-trip monitor on format_circuit judges each print against the object's state
    at that moment."""
    from cirbo.minimization.simplification import cleanup
    CUR['case'] = case
    rng = random.Random(case['rseed'])
    net = netgen.from_description(case['net'])
    with monitor.suspended():
        try:
            c = netgen.build(net, rng=rng)
        except Exception as e:
            ctx.count('build_failed:' + type(e).__name__)
            return
    try:
        c.format_circuit()
    except Exception as e:
        ctx.unexpected('format_circuit', e, case)
        return
    results = []
    try:
        if case['pass'] == 'cleanup':
            results.append(cleanup(c, use_heavy=case.get('heavy', False)))
        else:
            import mockturtle_wrapper as mw
            from cirbo.minimization.subcircuit import minimize_subcircuits
            mw.POLICY, mw.SEED = 'faithful', case['rseed']
            results.append(minimize_subcircuits(c, **case['params']))
        ctx.count('pass_ran:' + case['pass'])
    except Exception as e:
        ctx.count('pass_refused:%s:%s' % (case['pass'], type(e).__name__))
    changed = False
    for r in results + [c]:
        try:
            with monitor.suspended():
                changed = changed or refsem.structural_hash(refsem.net_of(r)) != refsem.structural_hash(net)
            r.format_circuit()
        except Exception as e:
            ctx.unexpected('format_circuit after ' + case['pass'], e, case)
    if changed:
        ctx.count('printed_after_rewrite')
    ctx.case('%s:%s:after' % (refsem.structural_hash(net), case['pass']), changed, cls='check:after_pass')


def check_bigfile(case, ctx):
    """A netlist of benchmark size written to a file and loaded again, once per padding length: the padding (length of
    an unused input's label) shifts every byte offset by one, so every alignment of line ends relative to any
    fixed-size read block occurs."""
    from cirbo.core.circuit import Circuit
    CUR['case'] = case
    rng = random.Random(case['rseed'])
    net = netgen.rand_net(rng, n_in=6, n_g=case['gates'], shape='random', max_arity=3, n_out=3, const_operands=False)
    pad = 'pad_' + 'p' * case['padding']
    g = {pad: ('INPUT', ())}
    g.update(net.gates)
    net = refsem.Net([pad] + list(net.inputs), list(net.outputs), g)
    with monitor.suspended():
        c = netgen.build(net)
    d = tempfile.mkdtemp(prefix='vt_c11_')
    try:
        p = os.path.join(d, 'big.bench')
        c.save_to_file(p)
        size = os.path.getsize(p)
        Circuit.from_bench_file(p)
        ctx.count('bigfile_roundtrips')
        ctx.info['bigfile_max_bytes'] = max(ctx.info.get('bigfile_max_bytes', 0), size)
    except Exception as e:
        ctx.unexpected('round trip (large file)', e, case)
    finally:
        import shutil
        shutil.rmtree(d, ignore_errors=True)
    ctx.case('bigfile:%d:%d:%d' % (case['gates'], case['padding'], case['rseed']), True, cls='check:bigfile')


def gen_after_pass(rng):
    from vt.props import c04
    shape, net = c04.gen_net(rng)
    while net is None:
        shape, net = c04.gen_net(rng)
    return {'kind': 'after_pass', 'net': netgen.describe(net), 'rseed': rng.getrandbits(32),
            'pass': rng.choice(['cleanup', 'minimize_subcircuits', 'minimize_subcircuits']), 'heavy': rng.random() < 0.5,
            'params': {'basis': rng.choice(['AIG', 'XAIG', 'FULL']), 'max_subcircuit_size': rng.choice([3, 4, 5]),
                       'cut_size': rng.choice([2, 3, 4]), 'cut_limit': rng.choice([8, 25]), 'solver_time_limit_sec': 0}}


def gen_case(rng, spec):
    shape = rng.choice(netgen.SHAPES)
    style = rng.choice(['plain', 'digits', 'keyword', 'keyword', 'brackets', 'at'])
    net = netgen.rand_net(rng, shape=shape, max_in=5, max_g=spec.get('max_g', 12), max_arity=5, label_style=style)
    case = {'kind': 'random', 'shape': shape, 'label_style': style, 'net': netgen.describe(net),
            'rseed': rng.getrandbits(32), 'shuffle': rng.random() < 0.4, 'file': rng.random() < 0.2, 'layouts': 2,
            'edited': rng.random() < 0.3}
    if spec.get('kind') == 'deep':
        case.update(net=netgen.deep_description(rng, spec['depths']), shape='deep', label_style='plain', shuffle=False,
                    edited=False, file=True, layouts=1)
    return case


def run_shard(spec, ctx):
    install(ctx)
    if spec.get('kind') == 'suite':
        from vt import suite
        import sys
        suite.run(sys.modules[__name__], ctx, select=spec.get('select'))
        return
    for i in range(spec['count']):
        if ctx.out_of_time():
            ctx.count('stopped_on_budget')
            break
        if spec.get('kind') == 'bigfile':
            check_bigfile({'kind': 'bigfile', 'gates': spec['gates'], 'padding': spec['paddings'][i], 'rseed': spec['nseed']}, ctx)
        elif spec.get('kind') == 'after_pass':
            check_after_pass(gen_after_pass(ctx.rng), ctx)
        else:
            check_case(gen_case(ctx.rng, spec), ctx)


def replay(case, ctx):
    install(ctx)
    if case.get('kind') == 'bigfile':
        check_bigfile(case, ctx)
    elif case.get('kind') == 'after_pass':
        check_after_pass(case, ctx)
    else:
        check_case(case, ctx)
