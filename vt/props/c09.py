"""C09 - subtraction, division, sqrt, comparison and gadget generators are exact."""
from __future__ import annotations

import math
import random

from vt import monitor, netgen, refsem
from vt.props import _arith as A

ID = 'C09'
LEVEL = 'exploration'
RULE = ('generate_* forms for widths 1..6 exhaustively (all operand values) and up to 24 sampled; add_* forms on random host '
        'circuits with operands that are primary inputs / internal gates / mixed / repeated, unequal widths, both '
        'endiannesses, constants 0..2^n+2 for equality, option matrix add_outputs x result_labels x big_endian for the '
        'gadgets. distinct = (gadget, widths, endianness, options, host class); non-trivial = an operand is an internal host '
        'gate or width >= 2.')
ANCHOR_FILES = ['cirbo/synthesis/generation/arithmetics/subtraction.py', 'cirbo/synthesis/generation/arithmetics/div_mod.py',
                'cirbo/synthesis/generation/arithmetics/sqrt.py', 'cirbo/synthesis/generation/arithmetics/equality.py',
                'cirbo/synthesis/generation/generation.py']
ASSUMPTIONS = ['vt.refsem bit-parallel evaluation; negative constants for the equality gadget are outside "all constants"']
FUNCS = ['generate_sub_two_numbers', 'add_sub_two_numbers', 'add_sub2', 'add_sub3', 'add_subtract_with_compare',
         'generate_div_mod', 'add_div_mod', 'generate_sqrt', 'add_sqrt', 'generate_equal', 'add_equal', 'generate_plus_one',
         'add_plus_one', 'generate_if_then_else', 'add_if_then_else', 'generate_pairwise_if_then_else',
         'add_pairwise_if_then_else', 'generate_pairwise_xor', 'add_pairwise_xor']
REQUIRED = {('mon:%s.checked' % f): (3 if f.startswith('generate_') else 8) for f in FUNCS}
REQUIRED.update({'host:internal': 40, 'endian:big': 40, 'opt:add_outputs=True': 20, 'opt:add_outputs=False': 20,
                 'opt:result_labels': 20, 'unequal_widths': 20, 'equal:does_not_fit': 5, 'divmod:zero_divisor_possible': 5, 'skewed_widths': 10, 'gadget_sweep_widths': 30})

SUB = 'cirbo.synthesis.generation.arithmetics.subtraction'
DIV = 'cirbo.synthesis.generation.arithmetics.div_mod'
SQR = 'cirbo.synthesis.generation.arithmetics.sqrt'
EQU = 'cirbo.synthesis.generation.arithmetics.equality'
GEN = 'cirbo.synthesis.generation.generation'


def shards(tier, seed):
    per = 300 if tier == 'quick' else 20000
    budget = 50 if tier == 'quick' else 560
    out = [{'kind': 'random', 'count': per, 'budget_s': budget, 'maxw': 6 if tier == 'quick' else 10} for _ in range(13)]
    out.append({'kind': 'skewed', 'budget_s': budget, 'wide': [9, 12, 17] if tier == 'quick' else [8, 9, 12, 16, 17, 24, 33]})
    sweep = list(range(1, 41)) + [63, 64, 65] + ([] if tier == 'quick' else [100, 101, 128, 256])
    for part in range(2):
        out.append({'kind': 'gadget_sweep', 'widths': sweep[part::2], 'budget_s': budget})
    out.append({'kind': 'generate', 'widths': [1, 2, 3], 'budget_s': budget})
    out.append({'kind': 'generate', 'widths': [4, 5], 'budget_s': budget})
    out.append({'kind': 'generate', 'widths': [6] if tier == 'quick' else [6, 7, 8, 12, 16, 24], 'budget_s': budget})
    return out


def install(ctx):
    A.CUR['ctx'] = ctx
    A.CUR['prop'] = 'C09'

    def rng():
        return random.Random(repr(A.CUR['case'])[:200])

    def pre_add(args, kwargs):
        return A.snapshot(args[0])

    def pre_none(args, kwargs):
        return None

    def arg(args, kwargs, i, name, default=None):
        return args[i] if len(args) > i else kwargs.get(name, default)

    # ---- subtraction
    def post_sub_two(st, args, kwargs, result):
        a, b = list(arg(args, kwargs, 1, 'input_labels_a')), list(arg(args, kwargs, 2, 'input_labels_b'))
        be = kwargs.get('big_endian', False)
        n = len(a)
        A.check_call('add_sub_two_numbers', st, args[0], [A.le(a, be), A.le(b, be)], [A.le(result, be)],
                     lambda x, y: ((x - y) % (1 << n),), expect_lengths=[n], rng=rng())
        ctx.mon('add_sub_two_numbers')

    A.attach(SUB, 'add_sub_two_numbers', pre_add, post_sub_two)

    def post_sub2(st, args, kwargs, result):
        ins = list(arg(args, kwargs, 1, 'input_labels'))
        be = kwargs.get('big_endian', False)
        x = A.le(ins, be)
        A.check_call('add_sub2', st, args[0], [[x[0]], [x[1]]], [[result[0]], [result[1]]],
                     lambda p, q: ((p - q) % 2, 1 if p < q else 0), rng=rng())
        ctx.mon('add_sub2')

    A.attach(SUB, 'add_sub2', pre_add, post_sub2)

    def post_sub3(st, args, kwargs, result):
        ins = list(arg(args, kwargs, 1, 'input_labels'))
        be = kwargs.get('big_endian', False)
        x = A.le(ins, be)
        A.check_call('add_sub3', st, args[0], [[x[0]], [x[1]], [x[2]]], [[result[0]], [result[1]]],
                     lambda p, q, r: ((p - q - r) % 2, 1 if p - q - r < 0 else 0), rng=rng())
        ctx.mon('add_sub3')

    A.attach(SUB, 'add_sub3', pre_add, post_sub3)

    def post_sub_cmp(st, args, kwargs, result):
        a, b = list(arg(args, kwargs, 1, 'input_labels_a')), list(arg(args, kwargs, 2, 'input_labels_b'))
        be = kwargs.get('big_endian', False)
        res, flag = result
        w = max(len(a), len(b))
        A.check_call('add_subtract_with_compare', st, args[0], [A.le(a, be), A.le(b, be)], [A.le(res, be), [flag]],
                     lambda x, y: ((x - y) % (1 << w), 1 if x < y else 0), expect_lengths=[w, 1], rng=rng())
        ctx.mon('add_subtract_with_compare')

    A.attach(SUB, 'add_subtract_with_compare', pre_add, post_sub_cmp)

    def post_gen_sub(st, args, kwargs, result):
        n, m = arg(args, kwargs, 0, 'size_of_input_a'), arg(args, kwargs, 1, 'size_of_input_b')
        be = kwargs.get('big_endian', False)
        c = result
        ins = list(c.inputs)
        ctx.mon('generate_sub_two_numbers')
        if len(ins) != n + m:
            ctx.violation('generate_sub_two_numbers', 'wrong_result', 'shape', '%d inputs' % len(ins), A.CUR['case'])
            return
        A.check_call('generate_sub_two_numbers', None, c, [A.le(ins[:n], be), A.le(ins[n:], be)], [A.le(list(c.outputs), be)],
                     lambda x, y: ((x - y) % (1 << n),), expect_lengths=[n], rng=rng())

    A.attach(SUB, 'generate_sub_two_numbers', pre_none, post_gen_sub)

    # ---- div mod
    def divmod_fn(x, y):
        return (x // y, x % y) if y else (0, 0)

    def post_divmod(st, args, kwargs, result):
        a, b = list(arg(args, kwargs, 1, 'input_labels_a')), list(arg(args, kwargs, 2, 'input_labels_b'))
        be = kwargs.get('big_endian', False)
        d, m = result
        n = len(a)
        A.check_call('add_div_mod', st, args[0], [A.le(a, be), A.le(b, be)], [A.le(d, be), A.le(m, be)], divmod_fn,
                     expect_lengths=[n, n], rng=rng())
        ctx.mon('add_div_mod')

    A.attach(DIV, 'add_div_mod', pre_add, post_divmod)

    def post_gen_divmod(st, args, kwargs, result):
        n = arg(args, kwargs, 0, 'n')
        be = kwargs.get('big_endian', False)
        c = result
        ins, outs = list(c.inputs), list(c.outputs)
        ctx.mon('generate_div_mod')
        if len(ins) != 2 * n or len(outs) != 2 * n:
            ctx.violation('generate_div_mod', 'wrong_result', 'shape', '%d inputs %d outputs for n=%d' % (len(ins), len(outs), n), A.CUR['case'])
            return
        A.check_call('generate_div_mod', None, c, [A.le(ins[:n], be), A.le(ins[n:], be)], [A.le(outs[:n], be), A.le(outs[n:], be)],
                     divmod_fn, rng=rng())

    A.attach(DIV, 'generate_div_mod', pre_none, post_gen_divmod)

    # ---- sqrt
    def post_sqrt(st, args, kwargs, result):
        a = list(arg(args, kwargs, 1, 'input_labels'))
        be = kwargs.get('big_endian', False)
        n = len(a)
        A.check_call('add_sqrt', st, args[0], [A.le(a, be)], [A.le(result, be)], lambda x: (math.isqrt(x),),
                     expect_lengths=[(n + 1) // 2], rng=rng())
        ctx.mon('add_sqrt')

    A.attach(SQR, 'add_sqrt', pre_add, post_sqrt)

    def post_gen_sqrt(st, args, kwargs, result):
        n = arg(args, kwargs, 0, 'inp_len')
        be = kwargs.get('big_endian', False)
        c = result
        ctx.mon('generate_sqrt')
        if len(c.inputs) != n:
            ctx.violation('generate_sqrt', 'wrong_result', 'shape', '%d inputs' % len(c.inputs), A.CUR['case'])
            return
        A.check_call('generate_sqrt', None, c, [A.le(list(c.inputs), be)], [A.le(list(c.outputs), be)],
                     lambda x: (math.isqrt(x),), expect_lengths=[(n + 1) // 2], rng=rng())

    A.attach(SQR, 'generate_sqrt', pre_none, post_gen_sqrt)

    # ---- equality
    def post_equal(st, args, kwargs, result):
        a = list(arg(args, kwargs, 1, 'input_labels'))
        num = arg(args, kwargs, 2, 'num')
        if num < 0:
            ctx.mon('add_equal', 'skipped_negative_constant')
            return
        A.check_call('add_equal', st, args[0], [a], [[result]], lambda x: (1 if x == num else 0,), rng=rng())
        ctx.mon('add_equal')

    A.attach(EQU, 'add_equal', pre_add, post_equal)

    def post_gen_equal(st, args, kwargs, result):
        n, num = arg(args, kwargs, 0, 'number_inputs'), arg(args, kwargs, 1, 'num')
        c = result
        if num < 0:
            ctx.mon('generate_equal', 'skipped_negative_constant')
            return
        ctx.mon('generate_equal')
        if len(c.inputs) != n or len(c.outputs) != 1:
            ctx.violation('generate_equal', 'wrong_result', 'shape', '%d inputs %d outputs' % (len(c.inputs), len(c.outputs)), A.CUR['case'])
            return
        A.check_call('generate_equal', None, c, [list(c.inputs)], [list(c.outputs)], lambda x: (1 if x == num else 0,), rng=rng())

    A.attach(EQU, 'generate_equal', pre_none, post_gen_equal)

    # ---- plus one
    def post_plus_one(st, args, kwargs, result):
        a = list(arg(args, kwargs, 1, 'input_labels'))
        be = kwargs.get('big_endian', False)
        ao = kwargs.get('add_outputs', False)
        rl = kwargs.get('result_labels')
        out_len = len(result)
        ctx.mon('add_plus_one')
        if rl is not None and list(result) != list(rl):
            ctx.violation('add_plus_one', 'wrong_result', 'result_labels_ignored', 'returned %r, requested labels %r' % (result, rl), A.CUR['case'])
            return
        if rl is None and out_len != len(a) + 1:
            ctx.violation('add_plus_one', 'wrong_result', 'result_length', '%d result bits for %d input bits' % (out_len, len(a)), A.CUR['case'])
        A.check_call('add_plus_one', st, args[0], [A.le(a, be)], [A.le(result, be)], lambda x: ((x + 1) % (1 << out_len),),
                     added_outputs=(list(result) if ao else None), rng=rng())

    A.attach(GEN, 'add_plus_one', pre_add, post_plus_one)

    def post_gen_plus_one(st, args, kwargs, result):
        n, o = arg(args, kwargs, 0, 'inp_len'), arg(args, kwargs, 1, 'out_len')
        be = kwargs.get('big_endian', False)
        c = result
        ctx.mon('generate_plus_one')
        if len(c.inputs) != n or len(c.outputs) != o:
            ctx.violation('generate_plus_one', 'wrong_result', 'shape', '%d inputs %d outputs for (%d,%d)' % (len(c.inputs), len(c.outputs), n, o), A.CUR['case'])
            return
        A.check_call('generate_plus_one', None, c, [A.le(list(c.inputs), be)], [A.le(list(c.outputs), be)],
                     lambda x: ((x + 1) % (1 << o),), rng=rng())

    A.attach(GEN, 'generate_plus_one', pre_none, post_gen_plus_one)

    # ---- if-then-else, pairwise
    def post_ite(st, args, kwargs, result):
        i, t, e = arg(args, kwargs, 1, 'if_label'), arg(args, kwargs, 2, 'then_label'), arg(args, kwargs, 3, 'else_label')
        ao = kwargs.get('add_outputs', False)
        rl = kwargs.get('result_label')
        ctx.mon('add_if_then_else')
        if rl is not None and result != rl:
            ctx.violation('add_if_then_else', 'wrong_result', 'result_labels_ignored', 'returned %r, requested %r' % (result, rl), A.CUR['case'])
            return
        A.check_call('add_if_then_else', st, args[0], [[i], [t], [e]], [[result]], lambda p, q, r: (q if p else r,),
                     added_outputs=([result] if ao else None), rng=rng())

    A.attach(GEN, 'add_if_then_else', pre_add, post_ite)

    def post_gen_ite(st, args, kwargs, result):
        c = result
        ctx.mon('generate_if_then_else')
        if len(c.inputs) != 3 or len(c.outputs) != 1:
            ctx.violation('generate_if_then_else', 'wrong_result', 'shape', '', A.CUR['case'])
            return
        ins = list(c.inputs)
        A.check_call('generate_if_then_else', None, c, [[ins[0]], [ins[1]], [ins[2]]], [list(c.outputs)],
                     lambda p, q, r: (q if p else r,), rng=rng())

    A.attach(GEN, 'generate_if_then_else', pre_none, post_gen_ite)

    def post_pw_ite(st, args, kwargs, result):
        i, t, e = list(arg(args, kwargs, 1, 'if_labels')), list(arg(args, kwargs, 2, 'then_labels')), list(arg(args, kwargs, 3, 'else_labels'))
        ao = kwargs.get('add_outputs', False)
        rl = kwargs.get('result_labels')
        ctx.mon('add_pairwise_if_then_else')
        if rl is not None and list(result) != list(rl):
            ctx.violation('add_pairwise_if_then_else', 'wrong_result', 'result_labels_ignored', '', A.CUR['case'])
            return
        n = len(i)
        A.check_call('add_pairwise_if_then_else', st, args[0], [i, t, e], [list(result)],
                     lambda p, q, r: ((p & q) | (~p & r & ((1 << n) - 1)),), expect_lengths=[n],
                     added_outputs=(list(result) if ao else None), rng=rng())

    A.attach(GEN, 'add_pairwise_if_then_else', pre_add, post_pw_ite)

    def post_gen_pw_ite(st, args, kwargs, result):
        n = arg(args, kwargs, 0, 'n')
        c = result
        ins = list(c.inputs)
        ctx.mon('generate_pairwise_if_then_else')
        if len(ins) != 3 * n or len(c.outputs) != n:
            ctx.violation('generate_pairwise_if_then_else', 'wrong_result', 'shape', '', A.CUR['case'])
            return
        A.check_call('generate_pairwise_if_then_else', None, c, [ins[:n], ins[n:2 * n], ins[2 * n:]], [list(c.outputs)],
                     lambda p, q, r: ((p & q) | (~p & r & ((1 << n) - 1)),), rng=rng())

    A.attach(GEN, 'generate_pairwise_if_then_else', pre_none, post_gen_pw_ite)

    def post_pw_xor(st, args, kwargs, result):
        x, y = list(arg(args, kwargs, 1, 'x_labels')), list(arg(args, kwargs, 2, 'y_labels'))
        ao = kwargs.get('add_outputs', False)
        rl = kwargs.get('result_labels')
        ctx.mon('add_pairwise_xor')
        if rl is not None and list(result) != list(rl):
            ctx.violation('add_pairwise_xor', 'wrong_result', 'result_labels_ignored', '', A.CUR['case'])
            return
        A.check_call('add_pairwise_xor', st, args[0], [x, y], [list(result)], lambda p, q: (p ^ q,), expect_lengths=[len(x)],
                     added_outputs=(list(result) if ao else None), rng=rng())

    A.attach(GEN, 'add_pairwise_xor', pre_add, post_pw_xor)

    def post_gen_pw_xor(st, args, kwargs, result):
        n = arg(args, kwargs, 0, 'n')
        c = result
        ins = list(c.inputs)
        ctx.mon('generate_pairwise_xor')
        if len(ins) != 2 * n or len(c.outputs) != n:
            ctx.violation('generate_pairwise_xor', 'wrong_result', 'shape', '', A.CUR['case'])
            return
        A.check_call('generate_pairwise_xor', None, c, [ins[:n], ins[n:]], [list(c.outputs)], lambda p, q: (p ^ q,), rng=rng())

    A.attach(GEN, 'generate_pairwise_xor', pre_none, post_gen_pw_xor)


# ------------------------------------------------------------------ workload

def run_call(case, ctx):
    from cirbo.synthesis.generation import arithmetics as ar
    from cirbo.synthesis import generation as gn
    A.CUR['case'] = case
    A.CUR['omit_defaults'] = (int(case.get('rseed', 0) or 0) >> 3) % 2 == 1
    f = case['func']
    be = case.get('big_endian', False)
    if be:
        ctx.count('endian:big')
    nontrivial = False
    _rng = random.Random(repr(case)[:120])

    def _twice(make):
        # the same request twice in one process; the first result is edited by its owner in between
        g = make()
        A.own_and_edit(g, _rng)
        return make()

    try:
        if f.startswith('generate_'):
            a = case['args']
            if f == 'generate_sub_two_numbers':
                _twice(lambda: ar.generate_sub_two_numbers(a[0], a[1], **A.be_kwargs(be)))
                nontrivial = a[0] >= 2
            elif f == 'generate_div_mod':
                _twice(lambda: ar.generate_div_mod(a[0], **A.be_kwargs(be)))
                ctx.count('divmod:zero_divisor_possible')
                nontrivial = a[0] >= 2
            elif f == 'generate_sqrt':
                _twice(lambda: ar.generate_sqrt(a[0], **A.be_kwargs(be)))
                nontrivial = a[0] >= 2
            elif f == 'generate_equal':
                if a[1] >= (1 << a[0]):
                    ctx.count('equal:does_not_fit')
                _twice(lambda: ar.generate_equal(a[0], a[1]))
                nontrivial = a[0] >= 2
            elif f == 'generate_plus_one':
                _twice(lambda: gn.generate_plus_one(a[0], a[1], **A.be_kwargs(be)))
                nontrivial = a[0] >= 2
            elif f == 'generate_if_then_else':
                _twice(lambda: gn.generate_if_then_else())
                nontrivial = True
            elif f == 'generate_pairwise_if_then_else':
                _twice(lambda: gn.generate_pairwise_if_then_else(a[0]))
                nontrivial = a[0] >= 2
            elif f == 'generate_pairwise_xor':
                _twice(lambda: gn.generate_pairwise_xor(a[0]))
                nontrivial = a[0] >= 2
        else:
            host = netgen.from_description(case['host'])
            with monitor.suspended():
                c = netgen.build(host)
            ctx.count('host:' + case['mode'])
            _uc = random.Random(repr(case.get('rseed')) + 'under_construction')
            if _uc.random() < 0.3:
                A.under_construction(c, _uc, ctx)
            ops = case['operands']
            if case.get('live') and len(ops) == 1 and f in ('add_plus_one', 'add_sqrt', 'add_sub2', 'add_sub3', 'add_equal'):
                # the caller passes what an accessor returned: the host's own live output list
                with monitor.suspended():
                    c.set_outputs(list(ops[0]))
                ops = [c.outputs]
                case = dict(case, same_list_object=True)   # (no iterable flavouring: the list object itself matters)
                A.CUR['case'] = case
                ctx.count('live_operand_list')
            if case.get('same_list_object') and len(ops) == 2:
                ops = [ops[0], ops[0]]   # the very same list object for both operands
                ctx.count('same_list_object')
            _fr = random.Random(repr(case.get('rseed')) + f)

            def _F(x):
                # any iterable the signature admits (Iterable[Label]) unless the case is about list object identity
                return x if case.get('same_list_object') else A.flavour(_fr, x, ctx)
            nontrivial = case['mode'] in ('internal', 'mixed', 'repeated') or any(len(o) >= 2 for o in ops)
            if len(ops) >= 2 and len(ops[0]) != len(ops[1]):
                ctx.count('unequal_widths')
            opt = {}
            if 'add_outputs' in case:
                ctx.count('opt:add_outputs=%s' % case['add_outputs'])
                if case['add_outputs'] or not A.CUR.get('omit_defaults'):
                    opt['add_outputs'] = case['add_outputs']
                else:
                    ctx.count('optional_argument_omitted')   # the caller who does not want outputs leaves the option out
            if case.get('result_labels') is not None:
                ctx.count('opt:result_labels')
                rl_ = case['result_labels']
                A.CALLER_LABELS.update([rl_] if isinstance(rl_, str) else rl_)
            if f in ('add_pairwise_xor', 'add_pairwise_if_then_else') and ops and len(ops[0]) >= 1 and _rng.random() < 0.3:
                # the same request with mismatched shapes first (operands or result labels of different lengths): it must
                # be refused with the documented error and, since nothing was built, must not have marked any output;
                # the caller then repeats the request correctly on the same host with the same labels
                from cirbo.synthesis.generation.exceptions import BadShapesError
                outs_before = list(c.outputs)
                bad_ops = [list(o) for o in ops]
                bad_rl = case.get('result_labels')
                how = _rng.choice(['short_operand', 'long_labels', 'short_labels'] if bad_rl else ['short_operand'])
                if how == 'short_operand':
                    bad_ops[-1] = bad_ops[-1][:-1]
                elif how == 'long_labels':
                    bad_rl = list(bad_rl) + ['vt_extra_label']
                else:
                    bad_rl = list(bad_rl)[:-1]
                try:
                    with monitor.suspended():
                        if f == 'add_pairwise_xor':
                            gn.add_pairwise_xor(c, bad_ops[0], bad_ops[1], result_labels=bad_rl, **opt)
                        else:
                            gn.add_pairwise_if_then_else(c, bad_ops[0], bad_ops[1], bad_ops[2], result_labels=bad_rl, **opt)
                    ctx.count('mismatched_request_accepted')
                except BadShapesError:
                    ctx.count('refused_then_repeated')
                    if list(c.outputs) != outs_before:
                        ctx.violation(f, 'wrong_result', 'refused_request_marked_outputs',
                                      'a request refused with the shape error changed the output list %r -> %r' % (
                                          outs_before, list(c.outputs)), dict(case, refused_first=how))
                except Exception as e:
                    ctx.count('mismatched_request_raised:' + type(e).__name__)
            if f == 'add_sub_two_numbers':
                ar.add_sub_two_numbers(c, _F(ops[0]), _F(ops[1]), **A.be_kwargs(be))
            elif f == 'add_sub2':
                ar.add_sub2(c, _F(ops[0]), **A.be_kwargs(be))
            elif f == 'add_sub3':
                ar.add_sub3(c, _F(ops[0]), **A.be_kwargs(be))
            elif f == 'add_subtract_with_compare':
                ar.add_subtract_with_compare(c, _F(ops[0]), _F(ops[1]), **A.be_kwargs(be))
            elif f == 'add_div_mod':
                ctx.count('divmod:zero_divisor_possible')
                ar.add_div_mod(c, _F(ops[0]), _F(ops[1]), **A.be_kwargs(be))
            elif f == 'add_sqrt':
                ar.add_sqrt(c, _F(ops[0]), **A.be_kwargs(be))
            elif f == 'add_equal':
                if case['num'] >= (1 << len(ops[0])):
                    ctx.count('equal:does_not_fit')
                ar.add_equal(c, _F(ops[0]), case['num'])
            elif f == 'add_plus_one':
                gn.add_plus_one(c, ops[0], result_labels=case.get('result_labels'), **A.be_kwargs(be), **opt)
            elif f == 'add_if_then_else':
                gn.add_if_then_else(c, ops[0][0], ops[0][1], ops[0][2], result_label=case.get('result_labels'), **opt)
            elif f == 'add_pairwise_if_then_else':
                gn.add_pairwise_if_then_else(c, ops[0], ops[1], ops[2], result_labels=case.get('result_labels'), **opt)
            elif f == 'add_pairwise_xor':
                gn.add_pairwise_xor(c, ops[0], ops[1], result_labels=case.get('result_labels'), **opt)
    except Exception as e:
        ctx.unexpected(f, e, case)
    key = '%s|%r|%s|%s|%r|%s|%r' % (f, case.get('args'), be, case.get('mode'), case.get('operands') and [len(o) for o in case['operands']],
                                    case.get('add_outputs'), case.get('num'))
    ctx.case(key + '|%d' % (case.get('rseed', 0) % 997), nontrivial, cls='func:' + f,
             sample={k: v for k, v in case.items() if k != 'host'} if nontrivial else None)


def gen_add_case(rng, maxw):
    f = rng.choice([x for x in FUNCS if not x.startswith('generate_')])
    host = A.make_host(rng, k_inputs=rng.randint(3, 9))
    mode = rng.choice(['inputs', 'internal', 'mixed', 'repeated'])
    case = {'kind': 'add', 'func': f, 'host': netgen.describe(host), 'mode': mode, 'rseed': rng.getrandbits(32)}
    w = rng.randint(1, maxw)
    pb = lambda k: A.pick_bits(rng, host, k, mode)
    if f in ('add_sub_two_numbers', 'add_subtract_with_compare'):
        w2 = w if rng.random() < 0.5 else rng.randint(1, maxw)
        case['operands'] = [pb(w), pb(w2)]
        case['big_endian'] = rng.random() < 0.5
    elif f == 'add_sub2':
        case['operands'] = [pb(2)]
        case['big_endian'] = rng.random() < 0.4
    elif f == 'add_sub3':
        case['operands'] = [pb(3)]
        case['big_endian'] = rng.random() < 0.4
    elif f == 'add_div_mod':
        w = rng.randint(1, min(maxw, 5))
        case['operands'] = [pb(w), pb(w)]
        case['big_endian'] = rng.random() < 0.5
    elif f == 'add_sqrt':
        case['operands'] = [pb(w)]
        case['big_endian'] = rng.random() < 0.5
    elif f == 'add_equal':
        case['operands'] = [pb(w)]
        case['num'] = rng.choice([0, 1, (1 << w) - 1, 1 << w, (1 << w) + 2, rng.randrange(1 << w)])
    elif f == 'add_plus_one':
        case['operands'] = [pb(w)]
        case['big_endian'] = rng.random() < 0.5
        case['add_outputs'] = rng.random() < 0.5
        if rng.random() < 0.5:
            ol = rng.choice([1, w, w + 1, w + 2, max(1, w - 1)])
            case['result_labels'] = ['res%d_%d' % (i, rng.randrange(1000)) for i in range(ol)]
    elif f == 'add_if_then_else':
        case['operands'] = [pb(3)]
        case['add_outputs'] = rng.random() < 0.5
        if rng.random() < 0.5:
            case['result_labels'] = 'ite_%d' % rng.randrange(1000)
    elif f == 'add_pairwise_if_then_else':
        case['operands'] = [pb(w), pb(w), pb(w)]
        case['add_outputs'] = rng.random() < 0.5
        if rng.random() < 0.5:
            case['result_labels'] = ['pite%d_%d' % (i, rng.randrange(1000)) for i in range(w)]
    elif f == 'add_pairwise_xor':
        case['operands'] = [pb(w), pb(w)]
        case['add_outputs'] = rng.random() < 0.5
        if rng.random() < 0.5:
            case['result_labels'] = ['px%d_%d' % (i, rng.randrange(1000)) for i in range(w)]
    if len(case['operands']) == 1 and rng.random() < 0.2:
        case['live'] = True
    if rng.random() < 0.5:
        case['host'] = netgen.describe(A.add_operand_users(host, case['operands'], rng))
    if len(case['operands']) == 2 and len(case['operands'][0]) == len(case['operands'][1]) and rng.random() < 0.15:
        case['operands'][1] = list(case['operands'][0])
        case['same_list_object'] = True
    return case


def run_shard(spec, ctx):
    install(ctx)
    rng = ctx.rng
    if spec['kind'] == 'skewed':
        # very unequal widths, systematically (both orders, both endiannesses)
        from cirbo.core.circuit import Circuit
        for narrow in (1, 2, 3):
            for wide in spec['wide']:
                for n, m in ((narrow, wide), (wide, narrow)):
                    for be in (False, True):
                        if ctx.out_of_time():
                            ctx.note_inconclusive('skewed-width grid not finished within the budget')
                            return
                        run_call({'kind': 'generate', 'func': 'generate_sub_two_numbers', 'args': [n, m], 'big_endian': be}, ctx)
                        host = netgen.rand_net(rng, n_in=n + m, n_g=0, n_out=0)
                        ins = list(host.inputs)
                        run_call({'kind': 'add', 'func': 'add_subtract_with_compare', 'host': netgen.describe(host), 'mode': 'inputs',
                                  'operands': [ins[:n], ins[n:]], 'big_endian': be, 'rseed': rng.getrandbits(32)}, ctx)
                        ctx.count('skewed_widths')
        return
    if spec['kind'] == 'gadget_sweep':
        # the linear-size gadgets over a contiguous range of widths (two-digit indices, machine-word sizes), stand-alone
        # and on a host with caller-chosen result labels of the usual numbered kind
        for w in spec['widths']:
            if ctx.out_of_time():
                ctx.note_inconclusive('gadget width sweep not finished within the budget')
                return
            run_call({'kind': 'generate', 'func': 'generate_pairwise_xor', 'args': [w]}, ctx)
            run_call({'kind': 'generate', 'func': 'generate_pairwise_if_then_else', 'args': [w]}, ctx)
            run_call({'kind': 'generate', 'func': 'generate_plus_one', 'args': [w, w + 1], 'big_endian': w % 2 == 0}, ctx)
            run_call({'kind': 'generate', 'func': 'generate_equal', 'args': [w, rng.choice([0, (1 << w) - 1, rng.randrange(1 << w)])]}, ctx)
            host = netgen.rand_net(rng, n_in=3 * w, n_g=0, n_out=0)
            ins = list(host.inputs)
            stem = rng.choice(['m', 'r_', 'out', 'if_then_else_', 'x_'])
            labels = ['%s%d' % (stem, i) for i in range(w)]
            if not any(l in host.gates for l in labels):
                run_call({'kind': 'add', 'func': 'add_pairwise_if_then_else', 'host': netgen.describe(host), 'mode': 'inputs',
                          'operands': [ins[:w], ins[w:2 * w], ins[2 * w:]], 'result_labels': labels, 'add_outputs': w % 2 == 1,
                          'rseed': rng.getrandbits(32)}, ctx)
                run_call({'kind': 'add', 'func': 'add_pairwise_xor', 'host': netgen.describe(host), 'mode': 'inputs',
                          'operands': [ins[:w], ins[w:2 * w]], 'result_labels': labels, 'add_outputs': w % 2 == 0,
                          'rseed': rng.getrandbits(32)}, ctx)
                run_call({'kind': 'add', 'func': 'add_plus_one', 'host': netgen.describe(host), 'mode': 'inputs',
                          'operands': [ins[:w]], 'result_labels': labels, 'add_outputs': True, 'big_endian': False,
                          'rseed': rng.getrandbits(32)}, ctx)
            ctx.count('gadget_sweep_widths')
        return
    if spec['kind'] == 'generate':
        for w in spec['widths']:
            for be in (False, True):
                items = [['generate_sub_two_numbers', [w, w]], ['generate_sub_two_numbers', [w, max(1, w - 1)]],
                         ['generate_sub_two_numbers', [w, w + 1]], ['generate_sqrt', [w]],
                         ['generate_plus_one', [w, w]], ['generate_plus_one', [w, w + 1]], ['generate_plus_one', [w, w + 2]],
                         ['generate_plus_one', [w, max(1, w - 1)]]]
                if w <= 8:
                    items.append(['generate_div_mod', [w]])
                for f, a in items:
                    if ctx.out_of_time():
                        ctx.count('stopped_on_budget')
                        return
                    run_call({'kind': 'generate', 'func': f, 'args': a, 'big_endian': be}, ctx)
            for num in sorted({0, 1, (1 << w) - 1, 1 << w, (1 << w) + 1, (1 << w) + 2, (1 << w) // 2, 5 % (1 << w)}):
                run_call({'kind': 'generate', 'func': 'generate_equal', 'args': [w, num]}, ctx)
            run_call({'kind': 'generate', 'func': 'generate_pairwise_xor', 'args': [w]}, ctx)
            if w <= 8:
                run_call({'kind': 'generate', 'func': 'generate_pairwise_if_then_else', 'args': [w]}, ctx)
        run_call({'kind': 'generate', 'func': 'generate_if_then_else', 'args': []}, ctx)
        return
    for _ in range(spec['count']):
        if ctx.out_of_time():
            ctx.count('stopped_on_budget')
            break
        run_call(gen_add_case(rng, spec['maxw']), ctx)


def replay(case, ctx):
    install(ctx)
    run_call(case, ctx)
