"""C13 - a miter is true exactly where the two circuits differ.

Post-condition monitor on the real build_miter: interface, the single output
equals (left(x) != right(x)) for every x both through the reference interpreter
and through the library's own evaluate, satisfiability verdict (through the
solver stand-in) equals non-equivalence, operands untouched; mismatched shapes
must raise MiterDifferentShapesError."""
from __future__ import annotations

import itertools
import random

from vt import monitor, netgen, refsem, wf

ID = 'C13'
LEVEL = 'exploration'
RULE = ('pairs of random circuits with equal shapes (1..4 outputs, 1..5 inputs): equivalent pairs (library cleanup rewrite, '
        'relabelled twin, re-ordered definition) and non-equivalent pairs (one gate type flipped, independent circuit), '
        'labels shared between the two, outputs that are inputs, repeated outputs, custom block names; mismatched shapes as '
        'negative class. distinct = pair of structural hashes + names; non-trivial = the two circuits differ structurally.')
ANCHOR_FILES = ['cirbo/sat/miter.py', 'cirbo/synthesis/generation/generation.py', 'cirbo/core/circuit/circuit.py']
ASSUMPTIONS = ['vt.refsem; the pysat stand-in (z3, self-checked) for the satisfiability verdict']
REQUIRED = {'mon:build_miter.checked': 150, 'pair:equivalent': 40, 'pair:different': 40, 'single_output': 30,
            'shape_mismatch_rejected': 10, 'sat_checked': 50, 'interference_before_miter': 10, 'operand_with_blocks': 30}

CUR = {'ctx': None, 'case': None}


def shards(tier, seed):
    per = 200 if tier == 'quick' else 12000
    budget = 45 if tier == 'quick' else 540
    _out = [{'kind': 'random', 'count': per, 'budget_s': budget} for _ in range(16)]
    ns = list(range(1, 72)) + [95, 96, 97, 127, 128, 129, 255, 256, 257]
    for part in range(2):
        sub = ns[part::2]
        _out.append({'kind': 'wide_out', 'ns': sub, 'count': len(sub) * (2 if tier == 'quick' else 12), 'budget_s': budget})
    _out.append({'kind': 'deep', 'count': 2 if tier == 'quick' else 20, 'budget_s': budget,
                 'depths': [1100, 1400] if tier == 'quick' else netgen.DEEP_THOROUGH})
    if tier == 'thorough':
        _out.append({'kind': 'suite', 'select': ['tests/cirbo/sat', 'tests/cirbo/minimization'], 'budget_s': 900})
    return _out


def _arg(args, kwargs, i, name):
    return args[i] if len(args) > i else kwargs[name]


@monitor.outer_only
def pre_miter(args, kwargs):
    left, right = _arg(args, kwargs, 0, 'left'), _arg(args, kwargs, 1, 'right')
    with monitor.suspended():
        clean = not wf.errors(left, check_copy=False) and not wf.errors(right, check_copy=False)
    return {'clean': clean, 'l': refsem.net_of(left), 'r': refsem.net_of(right), 'ls': wf.deep_snapshot(left),
            'rs': wf.deep_snapshot(right)}


@monitor.outer_only
def post_miter(st, args, kwargs, result):
    ctx = CUR['ctx']
    left, right = _arg(args, kwargs, 0, 'left'), _arg(args, kwargs, 1, 'right')
    if not st['clean']:
        ctx.mon('build_miter', 'skipped_pre_not_wf')
        return
    L, R = st['l'], st['r']

    def V(disc, msg, kind='wrong_result'):
        ctx.violation('build_miter', kind, disc, msg, CUR['case'])

    if len(L.inputs) != len(R.inputs) or len(L.outputs) != len(R.outputs):
        V('accepted_different_shapes', 'circuits of different shapes were accepted')
        return
    if not L.outputs:
        ctx.mon('build_miter', 'skipped_no_outputs')
        return
    ctx.mon('build_miter')
    if wf.deep_snapshot(left) != st['ls'] or wf.deep_snapshot(right) != st['rs']:
        V('operand_modified', 'an operand circuit was modified')
    m = refsem.net_of(result)
    if len(m.inputs) != len(L.inputs):
        V('input_count', 'miter has %d inputs, left circuit %d' % (len(m.inputs), len(L.inputs)))
        return
    if len(m.outputs) != 1:
        V('output_count', 'miter has %d outputs' % len(m.outputs))
        return
    with monitor.suspended():
        errs = wf.errors(result)
    if errs:
        V('not_wf', '; '.join(errs[:3]), kind='invariant')
        return
    n = len(L.inputs)
    if n > 10:
        return
    tl, ns = refsem.output_ints(L)
    tr, _ = refsem.output_ints(R)
    diff = 0
    for a, b in zip(tl, tr):
        diff |= a ^ b
    try:
        tm, _ = refsem.output_ints(m)
    except Exception as e:
        V('miter_malformed', 'miter cannot be interpreted: %r' % (e,))
        return
    if tm[0] != diff:
        V('function', 'miter output table %s, circuits differ on %s (left order, positional)' % (bin(tm[0]), bin(diff)))
        return
    # through the library's own evaluation
    with monitor.suspended():
        for k, x in enumerate(itertools.product((False, True), repeat=n)):
            try:
                got = result.evaluate(list(x))
            except Exception as e:
                V('evaluate_raises:' + type(e).__name__, 'evaluating the miter raised %r' % (e,), kind='exception')
                return
            if got != [bool((diff >> k) & 1)]:
                V('library_evaluation', 'miter.evaluate(%r) = %r, circuits differ: %r' % (list(x), got, bool((diff >> k) & 1)))
                return
        try:
            from cirbo.sat import is_circuit_satisfiable
            res = is_circuit_satisfiable(result)
            ctx.count('sat_checked')
            if bool(res.answer) != (diff != 0):
                V('satisfiability', 'miter satisfiable=%r but circuits %s' % (res.answer, 'differ' if diff else 'are equivalent'))
        except Exception as e:
            V('sat_raises:' + type(e).__name__, 'is_circuit_satisfiable(miter) raised %r' % (e,), kind='exception')
    ctx.count('pair:different' if diff else 'pair:equivalent')
    if len(L.outputs) == 1:
        ctx.count('single_output')


def raise_miter(st, args, kwargs, exc):
    from cirbo.sat.exceptions import MiterDifferentShapesError
    ctx = CUR['ctx']
    if st is None or not st['clean']:
        return
    L, R = st['l'], st['r']
    mismatch = len(L.inputs) != len(R.inputs) or len(L.outputs) != len(R.outputs)
    if mismatch:
        if isinstance(exc, MiterDifferentShapesError):
            ctx.count('shape_mismatch_rejected')
        else:
            ctx.violation('build_miter', 'exception', 'mismatch:' + type(exc).__name__,
                          'mismatched shapes raised %r instead of MiterDifferentShapesError' % (exc,), CUR['case'])
    else:
        ctx.violation('build_miter', 'exception', type(exc).__name__,
                      'equal shapes (%d in, %d out) raised %r' % (len(L.inputs), len(L.outputs), exc), CUR['case'])


def install(ctx):
    import importlib
    CUR['ctx'] = ctx
    mm = importlib.import_module('cirbo.sat.miter')
    w = monitor.attach(mm, 'build_miter', pre=pre_miter, post=post_miter, on_raise=raise_miter,
                       counter=ctx.moncounter('build_miter'))
    import cirbo.sat as sat
    sc = importlib.import_module('cirbo.minimization.subcircuit')
    for m in (sat, sc):
        if getattr(m, 'build_miter', None) is not None:
            orig = m.build_miter
            m.build_miter = w
            monitor._installed.append((m, 'build_miter', orig))


def _variant(net, kind, rng):
    from cirbo.minimization.simplification import cleanup
    if kind == 'twin':
        t, _ = netgen.twin(net, rng)
        return t
    if kind == 'same':
        return net.copy()
    if kind == 'cleanup':
        with monitor.suspended():
            c = cleanup(netgen.build(net), use_heavy=rng.random() < 0.5)
        return refsem.net_of(c)
    if kind == 'flip':
        g2 = dict(net.gates)
        cand = [l for l, (t, o) in g2.items() if t in ('AND', 'OR', 'XOR', 'NAND', 'NOR', 'NXOR', 'GT', 'LT', 'NOT', 'IFF')]
        if cand:
            l = rng.choice(cand)
            t, o = g2[l]
            g2[l] = ({'AND': 'OR', 'OR': 'AND', 'XOR': 'NXOR', 'NAND': 'NOR', 'NOR': 'NAND', 'NXOR': 'XOR', 'GT': 'LT',
                      'LT': 'GT', 'NOT': 'IFF', 'IFF': 'NOT'}[t], o)
        return refsem.Net(list(net.inputs), list(net.outputs), g2)
    if kind == 'independent':
        return netgen.rand_net(rng, n_in=len(net.inputs), n_out=len(net.outputs), max_g=8, allow_repeat_outputs=True)
    if kind == 'permute_inputs':
        ins = list(net.inputs)
        rng.shuffle(ins)
        return refsem.Net(ins, list(net.outputs), dict(net.gates))
    raise KeyError(kind)


def check_case(case, ctx):
    from cirbo.sat import build_miter
    CUR['case'] = case
    rng = random.Random(case['rseed'])
    L = netgen.from_description(case['left'])
    R = netgen.from_description(case['right'])
    with monitor.suspended():
        try:
            lc = netgen.build(L, rng=rng)
            rc = netgen.build(R, rng=rng)
        except Exception as e:
            ctx.count('build_failed:' + type(e).__name__)
            return
    for side, c_, n_ in (('lblocks', lc, L), ('rblocks', rc, R)):
        # operands that carry blocks of their own (user-made, any number of block outputs)
        for bi, (gs, k_out) in enumerate(case.get(side) or []):
            try:
                with monitor.suspended():
                    c_.make_block('ub%d' % bi, gs, gs[:k_out])
                ctx.count('operand_with_blocks')
            except Exception as e:
                ctx.count('make_block_failed:' + type(e).__name__)
    kw = {}
    if case.get('names'):
        kw = {'left_name': case['names'][0], 'right_name': case['names'][1]}
    if case.get('interfere'):
        # a caller that builds its own comparator from the library's pairwise-xor gadget and customises the object it
        # was handed (its own copy, as far as the caller knows) - later miters must not be affected
        try:
            with monitor.suspended():
                from cirbo.synthesis import generation as gn
                from cirbo.core.circuit import gate as G
                k = len(L.outputs)
                px = gn.generate_pairwise_xor(k)
                outs = list(px.outputs)
                for i, o in enumerate(outs):
                    px.emplace_gate('vt_eq_%d' % i, G.NOT, (o,))
                px.set_outputs(['vt_eq_%d' % i for i in range(len(outs))])
                px.order_inputs(list(reversed(px.inputs)))
            ctx.count('interference_before_miter')
        except Exception as e:
            ctx.count('interference_failed:' + type(e).__name__)
    try:
        build_miter(lc, rc, **kw)
    except Exception:
        pass  # the monitor's on_raise decides
    hl, hr = refsem.structural_hash(L), refsem.structural_hash(R)
    ctx.case('%s|%s|%r' % (hl, hr, case.get('names')), hl != hr, cls='variant:' + case['variant'],
             sample={'left': case['left'], 'right': case['right'], 'variant': case['variant']} if hl != hr else None)


def gen_wide_outputs(rng, spec):
    """Many outputs; the two circuits are equal or differ in exactly one output position (first / middle / last ...),
    so every comparator bit matters on its own.  Output counts are swept contiguously."""
    ns = spec['ns']
    n_out = ns[spec.get('index', 0) % len(ns)]
    n_in = rng.randint(2, 3)
    ins = ['x%d' % i for i in range(n_in)]
    g = {i: ('INPUT', ()) for i in ins}
    outs = []
    for k in range(n_out):
        t = rng.choice(['AND', 'OR', 'XOR', 'NAND', 'NOR', 'NXOR', 'GT', 'LT'])
        g['o%d' % k] = (t, (rng.choice(ins), rng.choice(ins)))
        outs.append('o%d' % k)
    left = refsem.Net(list(ins), list(outs), dict(g))
    mode = rng.choice(['same', 'one', 'one', 'one', 'two'])
    g2 = dict(g)
    outs2 = list(outs)
    if mode != 'same':
        pos = {rng.choice([0, n_out // 2, max(0, n_out - 2), n_out - 1, n_out - 1, rng.randrange(n_out)])}
        if mode == 'two':
            pos.add(rng.randrange(n_out))
        for p_ in pos:
            g2['neg%d' % p_] = ('NOT', (outs[p_],))
            outs2[p_] = 'neg%d' % p_
    right = refsem.Net(list(ins), outs2, g2)
    return {'kind': 'random', 'variant': 'wide_outputs:' + mode, 'left': netgen.describe(left), 'right': netgen.describe(right),
            'rseed': rng.getrandbits(32), 'names': None, 'interfere': False}


def gen_case(rng, spec):
    if spec.get('kind') == 'wide_out':
        return gen_wide_outputs(rng, spec)
    n_out = rng.choice([1, 1, 2, 3, 4])
    net = netgen.rand_net(rng, shape=rng.choice(netgen.SHAPES), max_in=5, min_in=0 if rng.random() < 0.06 else 1, max_g=9,
                          max_arity=3, n_out=n_out, const_operands=False)
    variant = rng.choice(['twin', 'same', 'cleanup', 'cleanup', 'flip', 'flip', 'independent', 'permute_inputs', 'mismatch'])
    if spec.get('kind') == 'deep':   # operands with long dependency chains
        net = netgen.deep_net(rng, rng.choice(spec['depths']), n_in=rng.randint(2, 3),
                              types=['AND', 'OR', 'XOR', 'NAND', 'NOR', 'NXOR', 'GT', 'LT', 'NOT', 'IFF'])
        n_out = len(net.outputs)
        variant = rng.choice(['same', 'flip', 'twin'])
    if variant == 'mismatch':
        other = netgen.rand_net(rng, n_in=len(net.inputs) + rng.choice([0, 1]), n_out=n_out + rng.choice([1, 2]), max_g=6)
        if rng.random() < 0.5:
            other = netgen.rand_net(rng, n_in=len(net.inputs) + 1, n_out=n_out, max_g=6)
    else:
        try:
            other = _variant(net, variant, rng)
        except Exception:
            other = net.copy()
            variant = 'same'
    blocks = {}
    for side, n_ in (('lblocks', net), ('rblocks', other)):
        inner = [l for l, (t, o) in n_.gates.items() if t != 'INPUT']
        if inner and rng.random() < 0.3:
            bl = []
            for _ in range(rng.randint(1, 2)):
                gs = rng.sample(inner, rng.randint(1, min(4, len(inner))))
                bl.append([gs, rng.randint(1, len(gs))])
            blocks[side] = bl
    names = None
    if rng.random() < 0.3:
        names = [rng.choice(['L', 'first', 'c_1']), rng.choice(['R', 'second', 'c_2'])]
    return {'kind': 'random', 'variant': variant, 'left': netgen.describe(net), 'right': netgen.describe(other),
            'rseed': rng.getrandbits(32), 'names': names, 'interfere': rng.random() < 0.25, **blocks}


def run_shard(spec, ctx):
    install(ctx)
    if spec.get('kind') == 'suite':
        from vt import suite
        import sys
        suite.run(sys.modules[__name__], ctx, select=spec.get('select'))
        return
    for i in range(spec['count']):
        if ctx.out_of_time():
            ctx.count('stopped_on_budget')
            break
        check_case(gen_case(ctx.rng, dict(spec, index=i)), ctx)


def replay(case, ctx):
    install(ctx)
    check_case(case, ctx)
