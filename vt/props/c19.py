"""C19 - local rewrites keep or specialise the function exactly as documented.

Post-condition monitors on the real rename_gate, replace_inputs,
replace_subcircuit and remove_gate; oracle = reference truth tables, reference
users multiset, vt.wf."""
from __future__ import annotations

import itertools
import copy
import random

from vt import monitor, netgen, refsem, wf

ID = 'C19'
LEVEL = 'exploration'
RULE = ('random circuits (all gate types, duplicated operands, repeated outputs, block members): every gate renamed in '
        'turn; all subsets of inputs (n<=4) split into true/false; cut-bounded slices from random backward walks replaced by '
        'relabelled / simplified / re-synthesised equivalents (and by non-equivalent or ill-mapped ones as negative class); '
        'remove_gate on used and unused gates. distinct = (structural hash, operation, arguments); non-trivial: rename of a '
        'gate with users or that is an output; cofactor fixing >=1 input; accepted replacement structurally different from the '
        'slice; remove of an output gate or refusal for a used gate.')
ANCHOR_FILES = ['cirbo/core/circuit/circuit.py', 'cirbo/core/circuit/validation.py']
ASSUMPTIONS = ['vt.refsem truth tables; vt.wf; equivalence of a replacement is judged in context (on the input combinations '
               'the cut can actually produce)']
REQUIRED = {'mon:rename_gate.checked': 200, 'mon:replace_inputs.checked': 100, 'mon:replace_subcircuit.checked': 60,
            'mon:remove_gate.checked': 100, 'replace:accepted': 40, 'replace:documented_error': 10,
            'replace:different_structure': 15, 'remove:refused_used_gate': 30, 'remove:output_gate': 20,
            'rename:dup_operand_user': 10, 'rename:block_member': 10, 'history_circuit': 100, 'mon:remove_block.checked': 30,
            'remove_block:refused_used_members': 30}

CUR = {'ctx': None, 'case': None}


def shards(tier, seed):
    per = 60 if tier == 'quick' else 4000
    budget = 45 if tier == 'quick' else 540
    _out = [{'kind': 'random', 'count': per, 'budget_s': budget, 'max_g': 10 if tier == 'quick' else 24}
            for _ in range(16)]
    _out.append({'kind': 'deep', 'count': 2 if tier == 'quick' else 20, 'budget_s': budget,
                 'depths': netgen.DEEP_QUICK if tier == 'quick' else netgen.DEEP_THOROUGH})
    if tier == 'thorough':
        _out.append({'kind': 'suite', 'select': ['tests/cirbo/core', 'tests/cirbo/minimization'], 'budget_s': 900})
    return _out


def _clean(c):
    with monitor.suspended():
        return not wf.errors(c, check_copy=False)


def _tables(net):
    if len(net.inputs) > 10:
        return None
    return refsem.truth_tables(net)[0]


# ------------------------------------------------------------------ rename

@monitor.outer_only
def pre_rename(args, kwargs):
    c = args[0]
    if not _clean(c):
        return None
    net = refsem.net_of(c)
    return {'net': net, 'tables': _tables(net),
            'blocks': {n: (list(b.inputs), list(b.gates), list(b.outputs)) for n, b in c.blocks.items()}}


@monitor.outer_only
def post_rename(st, args, kwargs, result):
    c = args[0]
    old = args[1] if len(args) > 1 else kwargs['old_label']
    new = args[2] if len(args) > 2 else kwargs['new_label']
    ctx = CUR['ctx']
    if st is None:
        ctx.mon('rename_gate', 'skipped_pre_not_wf')
        return
    ctx.mon('rename_gate')

    def V(disc, msg):
        ctx.violation('Circuit.rename_gate', 'wrong_result', disc, msg, CUR['case'])

    a = st['net']
    r = refsem.net_of(c)
    mp = lambda l: new if l == old else l
    if old in r.gates:
        V('old_label_left', 'old label %r still names a gate' % old)
        return
    for l, (t, ops) in r.gates.items():
        if old in ops:
            V('stale_operand', 'gate %r still has operand %r' % (l, old))
            return
    if old in r.inputs or old in r.outputs:
        V('stale_interface', 'old label still in inputs/outputs')
        return
    for l in c.gates:
        if old in c.get_gate_users(l):
            V('stale_users', 'users of %r still mention %r' % (l, old))
            return
    for n, b in c.blocks.items():
        if old in b.inputs or old in b.gates or old in b.outputs:
            V('stale_block', 'block %r still mentions %r' % (n, old))
            return
    for n, (bi, bg, bo) in st['blocks'].items():
        if n not in c.blocks:
            V('block_lost', 'block %r disappeared' % n)
            return
        b = c.blocks[n]
        if list(b.inputs) != list(map(mp, bi)) or list(b.gates) != list(map(mp, bg)) or list(b.outputs) != list(map(mp, bo)):
            V('block_not_renamed', 'block %r is not the renamed block' % n)
            return
    want_gates = {mp(l): (t, tuple(map(mp, ops))) for l, (t, ops) in a.gates.items()}
    if r.gates != want_gates:
        diff = [l for l in want_gates if r.gates.get(l) != want_gates[l]][:3]
        V('structure', 'gates differ from the renamed original at %r' % diff)
        return
    if r.inputs != list(map(mp, a.inputs)) or r.outputs != list(map(mp, a.outputs)):
        V('interface', 'inputs/outputs are not the renamed originals')
        return
    with monitor.suspended():
        errs = wf.errors(c)
    if errs:
        ctx.violation('Circuit.rename_gate', 'invariant', 'not_wf', '; '.join(errs[:3]), CUR['case'])
        return
    if st['tables'] is not None:
        tr = _tables(r)
        for l in a.gates:
            if st['tables'][l] != tr[mp(l)]:
                V('function_changed', 'gate %r changed its truth table' % l)
                return


def raise_rename(st, args, kwargs, exc):
    from cirbo.core.circuit.exceptions import CircuitGateAlreadyExistsError, CircuitGateIsAbsentError
    ctx = CUR['ctx']
    if st is None:
        return
    old = args[1] if len(args) > 1 else kwargs['old_label']
    new = args[2] if len(args) > 2 else kwargs['new_label']
    a = st['net']
    if old in a.gates and new not in a.gates:
        ctx.violation('Circuit.rename_gate', 'exception', type(exc).__name__,
                      'valid rename %r -> %r raised %r' % (old, new, exc), CUR['case'])


# ------------------------------------------------------------------ cofactor

@monitor.outer_only
def pre_replace_inputs(args, kwargs):
    c = args[0]
    tt = list(args[1] if len(args) > 1 else kwargs['inputs_to_true'])
    ff = list(args[2] if len(args) > 2 else kwargs['inputs_to_false'])
    if not _clean(c):
        return None
    net = refsem.net_of(c)
    both = tt + ff
    if len(set(both)) != len(both) or any(x not in net.inputs for x in both) or len(net.inputs) > 10:
        return {'domain': False}
    return {'domain': True, 'net': net, 'tt': tt, 'ff': ff}


@monitor.outer_only
def post_replace_inputs(st, args, kwargs, result):
    c = args[0]
    ctx = CUR['ctx']
    if st is None or not st['domain']:
        ctx.mon('replace_inputs', 'skipped_domain')
        return
    ctx.mon('replace_inputs')
    a, tt, ff = st['net'], st['tt'], st['ff']

    def V(disc, msg):
        ctx.violation('Circuit.replace_inputs', 'wrong_result', disc, msg, CUR['case'])

    r = refsem.net_of(c)
    want_inputs = [i for i in a.inputs if i not in tt and i not in ff]
    if r.inputs != want_inputs:
        V('inputs', 'inputs %r, expected the remaining inputs in original order %r' % (r.inputs, want_inputs))
        return
    if r.outputs != a.outputs:
        V('outputs', 'outputs changed')
        return
    with monitor.suspended():
        errs = wf.errors(c)
    if errs:
        ctx.violation('Circuit.replace_inputs', 'invariant', 'not_wf', '; '.join(errs[:3]), CUR['case'])
        return
    # reference cofactor: evaluate the original over the remaining inputs with the fixed ones constant
    cols, mask, ns = refsem.canonical_columns(len(want_inputs))
    iv = dict(zip(want_inputs, cols))
    for x in tt:
        iv[x] = mask
    for x in ff:
        iv[x] = 0
    va = refsem.eval_net(a, iv, mask)
    vr, _ = refsem.truth_tables(r)
    for g in a.gates:
        if g in tt or g in ff:
            continue
        if g not in vr or va[g] != vr[g]:
            V('not_the_cofactor', 'gate %r is not the cofactor for true=%r false=%r' % (g, tt, ff))
            return
    for o in a.outputs:
        if va[o] != vr[o]:
            V('not_the_cofactor', 'output %r is not the cofactor' % o)
            return


# ------------------------------------------------------------------ replace_subcircuit

def _slice_walk(net, inputs, roots):
    """Backward closure from roots stopping at `inputs`; returns (gates, hits_primary_input)."""
    gates, st, bad = set(), [r for r in roots if r not in inputs], False
    while st:
        g = st.pop()
        if g in gates:
            continue
        gates.add(g)
        for o in net.gates[g][1]:
            if o in inputs:
                continue
            if net.gates[o][0] == 'INPUT':
                bad = True
                continue
            st.append(o)
    return gates, bad


@monitor.outer_only
def pre_replace_sub(args, kwargs):
    c = args[0]
    sub = args[1] if len(args) > 1 else kwargs['subcircuit']
    imap = dict(args[2] if len(args) > 2 else kwargs['inputs_mapping'])
    omap = dict(args[3] if len(args) > 3 else kwargs['outputs_mapping'])
    if not _clean(c) or not _clean(sub):
        return None
    net = refsem.net_of(c)
    snet = refsem.net_of(sub)
    st = {'net': net, 'equiv': False, 'why': ''}
    try:
        if len(net.inputs) > 10:
            st['why'] = 'large'
            return st
        if any(k not in net.gates for k in list(imap) + list(omap)) or any(v not in snet.gates for v in list(imap.values()) + list(omap.values())):
            st['why'] = 'unknown_labels'
            return st
        if set(imap) & set(omap) or set(snet.inputs) != set(imap.values()) or len(set(imap.values())) != len(imap):
            st['why'] = 'ill_mapped'
            return st
        gates, bad = _slice_walk(net, set(imap), list(omap))
        if bad:
            st['why'] = 'not_cut_bounded'
            return st
        # every slice gate used outside the slice (or a circuit output) must be mapped
        users = {}
        for l, (t, ops) in net.gates.items():
            for o in ops:
                users.setdefault(o, []).append(l)
        for g in gates:
            if g not in omap and (g in net.outputs or any(u not in gates for u in users.get(g, []))):
                st['why'] = 'unmapped_slice_output'
                return st
        vals, ns = refsem.truth_tables(net)
        mask = (1 << ns) - 1
        sv = refsem.eval_net(snet, {v: vals[k] for k, v in imap.items()}, mask)
        for k, v in omap.items():
            if sv[v] != vals[k]:
                st['why'] = 'not_equivalent'
                return st
        st['equiv'] = True
        st['slice'] = {g: net.gates[g] for g in gates}
        st['sub_gates'] = {l: snet.gates[l] for l in snet.gates if snet.gates[l][0] != 'INPUT'}
        st['table'] = [vals[o] for o in net.outputs]
    except Exception as e:  # oracle trouble => outside the monitored domain, counted
        st['why'] = 'oracle:' + type(e).__name__
    return st


@monitor.outer_only
def post_replace_sub(st, args, kwargs, result):
    c = args[0]
    ctx = CUR['ctx']
    if st is None or not st['equiv']:
        ctx.mon('replace_subcircuit', 'skipped_' + (st['why'] if st else 'pre_not_wf'))
        return
    ctx.mon('replace_subcircuit')
    ctx.count('replace:accepted')

    def V(disc, msg):
        ctx.violation('Circuit.replace_subcircuit', 'wrong_result', disc, msg, CUR['case'])

    a = st['net']
    r = refsem.net_of(c)
    with monitor.suspended():
        errs = wf.errors(c)
    if errs:
        ctx.violation('Circuit.replace_subcircuit', 'invariant', 'not_wf:' + errs[0].split(' ')[0].split('(')[0],
                      '; '.join(errs[:3]), CUR['case'])
        return
    imap = dict(args[2] if len(args) > 2 else kwargs['inputs_mapping'])
    omap = dict(args[3] if len(args) > 3 else kwargs['outputs_mapping'])
    want_inputs = [imap.get(i, i) for i in a.inputs]   # mapped circuit nodes take the replacement's labels
    if r.inputs != want_inputs:
        V('inputs', 'inputs %r became %r (expected %r)' % (a.inputs, r.inputs, want_inputs))
        return
    want_outputs = [omap.get(o, imap.get(o, o)) for o in a.outputs]
    if r.outputs != want_outputs:
        V('outputs', 'outputs %r became %r (expected %r)' % (a.outputs, r.outputs, want_outputs))
        return
    if len(r.outputs) != len(a.outputs):
        V('outputs', 'number of outputs changed')
        return
    tr = refsem.output_ints(r)[0]
    if tr != st['table']:
        V('function_changed', 'whole-circuit truth table changed: %r -> %r' % (st['table'], tr))
        return
    s1 = sorted((t, len(o)) for t, o in st['slice'].values())
    s2 = sorted((t, len(o)) for t, o in st['sub_gates'].values())
    if s1 != s2:
        ctx.count('replace:different_structure')


def raise_replace_sub(st, args, kwargs, exc):
    from cirbo.exceptions import CirboError
    ctx = CUR['ctx']
    if st is None:
        return
    if isinstance(exc, CirboError):
        ctx.count('replace:documented_error')
        ctx.count('replace:error:' + type(exc).__name__)
        return
    if st['equiv']:
        ctx.violation('Circuit.replace_subcircuit', 'exception', type(exc).__name__,
                      'equivalent replacement of a cut-bounded slice raised undocumented %r' % (exc,), CUR['case'])
    else:
        ctx.count('replace:undocumented_error_outside_domain:' + type(exc).__name__)


# ------------------------------------------------------------------ remove_gate

@monitor.outer_only
def pre_remove(args, kwargs):
    c = args[0]
    lbl = args[1] if len(args) > 1 else kwargs['gate_label']
    net = refsem.net_of(c)
    users = [l for l, (t, ops) in net.gates.items() for o in ops if o == lbl]
    if not _clean(c):
        # "succeeds only for a gate nobody uses" is a statement about the operand relation: it is decided even when the
        # circuit's own bookkeeping was already off before the call (the other clauses need a well-formed start)
        closed = all(o in net.gates for t, ops in net.gates.values() for o in ops)
        return {'dirty': True, 'users': users if closed else [], 'exists': lbl in net.gates}
    return {'net': net, 'users': users, 'exists': lbl in net.gates}


@monitor.outer_only
def post_remove(st, args, kwargs, result):
    c = args[0]
    lbl = args[1] if len(args) > 1 else kwargs['gate_label']
    ctx = CUR['ctx']
    def V(disc, msg):
        ctx.violation('Circuit.remove_gate', 'wrong_result', disc, msg, CUR['case'])

    if st.get('dirty'):
        ctx.mon('remove_gate', 'skipped_pre_not_wf')
        if st['users']:
            V('removed_used_gate', 'gate %r with users %r was removed' % (lbl, st['users']))
        return
    ctx.mon('remove_gate')

    if st['users']:
        V('removed_used_gate', 'gate %r with users %r was removed' % (lbl, st['users']))
        return
    if not st['exists']:
        V('removed_missing_gate', 'removal of a missing gate returned normally')
        return
    if c.has_gate(lbl):
        V('not_removed', 'gate still present')
        return
    if lbl in c.outputs:
        V('still_output', 'label still in the output list')
        return
    if lbl in st['net'].outputs:
        ctx.count('remove:output_gate')
    if lbl in c.inputs:
        V('still_input', 'label still in the input list')
        return
    with monitor.suspended():
        errs = wf.errors(c)
    if errs:
        ctx.violation('Circuit.remove_gate', 'invariant', 'not_wf', '; '.join(errs[:3]), CUR['case'])
        return
    a = st['net']
    r = refsem.net_of(c)
    if {l: v for l, v in a.gates.items() if l != lbl} != r.gates:
        V('other_gates_changed', 'gates other than the removed one changed')
    if [o for o in a.outputs if o != lbl] != r.outputs:
        V('outputs', 'outputs %r became %r' % (a.outputs, r.outputs))


def raise_remove(st, args, kwargs, exc):
    ctx = CUR['ctx']
    if st.get('dirty'):
        return
    ctx.mon('remove_gate')
    if st['users']:
        ctx.count('remove:refused_used_gate')


@monitor.outer_only
def pre_remove_block(args, kwargs):
    c = args[0]
    name = args[1] if len(args) > 1 else kwargs['block_label']
    try:
        members = list(c.blocks[name].gates)
    except Exception:
        return None
    net = refsem.net_of(c)
    outside = {}
    for l, (t, ops) in net.gates.items():
        if l in members:
            continue
        for o in ops:
            if o in members:
                outside.setdefault(o, []).append(l)
    return {'members': members, 'outside': outside, 'clean': _clean(c)}


@monitor.outer_only
def post_remove_block(st, args, kwargs, result):
    c = args[0]
    ctx = CUR['ctx']
    if st is None:
        return
    ctx.mon('remove_block')
    if st['outside']:
        ctx.violation('Circuit.remove_block', 'wrong_result', 'removed_used_gate',
                      'block removed although its members are read from outside the block: %r' % (dict(list(st['outside'].items())[:3]),),
                      CUR['case'])
        return
    if st['clean']:
        with monitor.suspended():
            errs = wf.errors(c)
        if errs:
            ctx.violation('Circuit.remove_block', 'invariant', 'not_wf', '; '.join(errs[:3]), CUR['case'])


def raise_remove_block(st, args, kwargs, exc):
    if st is not None and st['outside']:
        CUR['ctx'].count('remove_block:refused_used_members')


def install(ctx):
    from cirbo.core.circuit import Circuit
    CUR['ctx'] = ctx
    monitor.attach(Circuit, 'remove_block', pre=pre_remove_block, post=post_remove_block, on_raise=raise_remove_block)
    monitor.attach(Circuit, 'rename_gate', pre=pre_rename, post=post_rename, on_raise=raise_rename)
    monitor.attach(Circuit, 'replace_inputs', pre=pre_replace_inputs, post=post_replace_inputs)
    monitor.attach(Circuit, 'replace_subcircuit', pre=pre_replace_sub, post=post_replace_sub, on_raise=raise_replace_sub)
    monitor.attach(Circuit, 'remove_gate', pre=pre_remove, post=post_remove, on_raise=raise_remove)


# ------------------------------------------------------------------ workload

def _build(net, case, rng, blocks=True):
    m = CUR.get('master')
    if m is not None:
        with monitor.suspended():
            c = copy.deepcopy(m)
            if not blocks:
                for b in list(c.blocks):
                    c.delete_block(b)
            return c
    with monitor.suspended():
        c = netgen.build(net, rng=rng, shuffle_storage=case.get('shuffle', False))
        if blocks and case.get('block'):
            inner = [l for l in net.gates if net.gates[l][0] != 'INPUT']
            if inner:
                gs = inner[: max(1, len(inner) // 2)]
                c.make_block('blk', gs, gs[:1])
        return c


def check_case(case, ctx):
    from cirbo.core.circuit import Circuit
    CUR['case'] = case
    CUR['master'] = None
    net = netgen.from_description(case['net'])
    rng = random.Random(case['rseed'])
    if case.get('history') is not None:
        # the circuit under test is one that was reached through a history of public edits (into_bench included),
        # made with the monitors on; every later phase works on clones of that object
        try:
            m = _build(net, case, rng)
            netgen.random_edits(m, random.Random(case['history']), allow_into_bench=True)
            with monitor.suspended():
                net = refsem.net_of(m)
        except Exception as e:
            ctx.count('build_failed:' + type(e).__name__)
            return
        CUR['master'] = m
        ctx.count('history_circuit')
    sh = refsem.structural_hash(net)
    users = {}
    for l, (t, ops) in net.gates.items():
        for o in ops:
            users.setdefault(o, []).append(l)
    # ---- rename every gate in turn
    try:
        c = _build(net, case, rng)
    except Exception as e:
        ctx.count('build_failed:' + type(e).__name__)
        return
    # a second circuit assembled from the very same Gate objects (add_gate takes Gate objects; two netlists built from one
    # list of gates is ordinary use): editing one circuit must leave the other one alone
    sib = sib_snap = None
    if len(net.gates) <= 60 and rng.random() < 0.5:
        try:
            with monitor.suspended():
                sib = Circuit()
                for g_ in c.gates.values():
                    sib.add_gate(g_)
                sib.set_outputs(list(c.outputs))
                sib_snap = (wf.deep_snapshot(sib), refsem.net_of(sib))
            ctx.count('sibling_sharing_gate_objects')
        except Exception as e:
            ctx.count('sibling_build_failed:' + type(e).__name__)
            sib = None
    for l in (list(net.gates) if len(net.gates) <= 60 else rng.sample(list(net.gates), 15)):
        new = 'RN_' + l
        if any(len(net.gates[u][1]) != len(set(net.gates[u][1])) and net.gates[u][1].count(l) > 1 for u in users.get(l, [])):
            ctx.count('rename:dup_operand_user')
        if case.get('block') and 'blk' in c.blocks and l in c.blocks['blk'].gates:
            ctx.count('rename:block_member')
        try:
            c.rename_gate(l, new)
            if sib is not None:
                with monitor.suspended():
                    now_net = refsem.net_of(sib)
                if now_net.gates != sib_snap[1].gates:
                    diff = [l_ for l_ in sib_snap[1].gates if now_net.gates.get(l_) != sib_snap[1].gates[l_]]
                    ctx.violation('Circuit.rename_gate', 'wrong_result', 'other_circuit_changed',
                                  'renaming %r in one circuit changed another circuit that holds the same Gate objects (gates %r)' % (l, diff[:4]),
                                  dict(case, failing=['rename', l]))
                    sib = None
            c.rename_gate(new, l)
        except Exception as e:
            ctx.unexpected('Circuit.rename_gate', e, dict(case, failing=['rename', l]))
            break
        ctx.case('%s:rename:%s' % (sh, l), bool(users.get(l)) or l in net.outputs, cls='op:rename')
    if sib is not None:
        with monitor.suspended():
            now = (wf.deep_snapshot(sib), refsem.net_of(sib))
        if now[1].gates != sib_snap[1].gates or now[0] != sib_snap[0]:
            diff = [l_ for l_ in sib_snap[1].gates if now[1].gates.get(l_) != sib_snap[1].gates[l_]]
            ctx.violation('Circuit.rename_gate', 'wrong_result', 'other_circuit_changed',
                          'renaming gates of one circuit changed another circuit that holds the same Gate objects (gates %r)' % (diff[:4],),
                          case)
    if net.gates:
        l = rng.choice(list(net.gates))
        for a_, b_ in ((l, l), ('__missing__', 'x'), (l, rng.choice(list(net.gates)))):
            try:
                c.rename_gate(a_, b_)
            except Exception:
                pass
    # ---- cofactors
    n = len(net.inputs)
    if n <= 4:
        assigns = list(itertools.product((None, True, False), repeat=n))
    else:
        assigns = [tuple(rng.choice((None, True, False)) for _ in range(n)) for _ in range(30)]
    rng.shuffle(assigns)
    for p in assigns[:case.get('cofactors', 20)]:
        tt = [i for i, v in zip(net.inputs, p) if v is True]
        ff = [i for i, v in zip(net.inputs, p) if v is False]
        if rng.random() < 0.5:
            rng.shuffle(tt)
            rng.shuffle(ff)
        try:
            c2 = _build(net, case, rng)
            c2.replace_inputs(tt, ff)
        except Exception as e:
            ctx.unexpected('Circuit.replace_inputs', e, dict(case, failing=['replace_inputs', tt, ff]))
            continue
        ctx.case('%s:cofactor:%r:%r' % (sh, sorted(tt), sorted(ff)), bool(tt or ff), cls='op:replace_inputs',
                 sample={'net': case['net'], 'to_true': tt, 'to_false': ff} if (tt and ff) else None)
    # ---- the circuit's own live lists handed back as arguments ("fix all inputs", "fix what the accessor returns")
    if net.inputs and rng.random() < 0.5:
        for which in ('true', 'false'):
            try:
                c2 = _build(net, case, rng)
                if which == 'true':
                    c2.replace_inputs(c2.inputs, [])
                else:
                    c2.replace_inputs([], c2.inputs)
                ctx.count('replace_inputs:live_list_argument')
            except Exception as e:
                ctx.unexpected('Circuit.replace_inputs', e, dict(case, failing=['replace_inputs', 'live circuit.inputs as ' + which]))
    # ---- subcircuit replacement
    for k in range(case.get('slices', 4)):
        sl = netgen.random_slice(net, rng, p_cut=rng.choice([0.2, 0.4, 0.6]))
        if sl is None:
            break
        sins, sgates, roots = sl
        souts = [g for g in sgates if g in roots or g in net.outputs or any(u not in sgates for u in users.get(g, []))]
        sub = netgen.slice_net(net, sins, sgates, souts)
        kind = rng.choice(['relabel_all', 'relabel_inner', 'same_labels', 'simplified', 'resynth', 'wrong_function',
                           'missing_output'])
        try:
            with monitor.suspended():
                sub2, imap, omap = _make_replacement(sub, sins, souts, kind, rng, k)
        except Exception as e:
            ctx.count('replacement_generation_failed:' + type(e).__name__)
            continue
        ctx.count('replace:kind:' + kind)
        c3 = _build(net, case, rng, blocks=rng.random() < 0.5)
        if c3.blocks:
            # more user blocks that overlap the region or not (their fate is the library's business, but every block
            # that survives must still name existing gates)
            try:
                with monitor.suspended():
                    inner_ = [l for l in net.gates if net.gates[l][0] != 'INPUT']
                    for bi in range(rng.randint(0, 2)):
                        gs_ = rng.sample(inner_, rng.randint(1, min(3, len(inner_))))
                        c3.make_block('ub%d' % bi, gs_, gs_[:1])
                ctx.count('replace:with_user_blocks')
            except Exception as e:
                ctx.count('make_block_failed:' + type(e).__name__)
        CUR['case'] = dict(case, failing=['replace_subcircuit', kind, netgen.describe(sub2), imap, omap])
        try:
            with monitor.suspended():
                subc = netgen.build(sub2)
            c3.replace_subcircuit(subc, dict(imap), dict(omap))
            outcome = 'accepted'
        except Exception as e:
            outcome = type(e).__name__
        CUR['case'] = case
        ctx.case('%s:replace:%s:%r:%r' % (sh, kind, sorted(imap.items()), sorted(omap.items())),
                 outcome == 'accepted' and kind in ('simplified', 'resynth', 'relabel_all', 'relabel_inner'),
                 cls='op:replace_subcircuit/' + ('accepted' if outcome == 'accepted' else 'raised'),
                 sample={'net': case['net'], 'slice_inputs': sins, 'slice_outputs': souts, 'kind': kind,
                         'replacement': netgen.describe(sub2), 'outcome': outcome} if outcome == 'accepted' and kind in ('simplified', 'resynth') else None)
    # ---- remove_gate
    c4 = _build(net, case, rng)
    order = list(net.gates)
    rng.shuffle(order)
    for l in order[:8]:
        if not c4.has_gate(l):
            continue
        try:
            c4.remove_gate(l)
            out = 'removed'
        except Exception as e:
            out = type(e).__name__
        ctx.case('%s:remove:%s' % (sh, l), (out == 'removed' and l in net.outputs) or out != 'removed', cls='op:remove_gate/' + out)
    try:
        c4.remove_gate('__missing__')
    except Exception:
        pass
    # ---- remove_block: gates leave the circuit block-wise; the same "only what nobody uses" applies
    c5 = _build(net, case, rng)
    inner5 = [l for l in net.gates if net.gates[l][0] != 'INPUT']
    if inner5:
        for bi in range(rng.randint(1, 3)):
            try:
                with monitor.suspended():
                    gs5 = rng.sample(inner5, rng.randint(1, min(3, len(inner5))))
                    if 'rb%d' % bi not in c5.blocks and all(c5.has_gate(g) for g in gs5):
                        c5.make_block('rb%d' % bi, gs5, gs5[:1])
                    else:
                        continue
                c5.remove_block('rb%d' % bi)
                out5 = 'removed'
            except Exception as e:
                out5 = type(e).__name__
            ctx.case('%s:remove_block:%r' % (sh, gs5), True, cls='op:remove_block/' + out5)


def _make_replacement(sub, sins, souts, kind, rng, k):
    from cirbo.minimization.simplification import cleanup
    imap = {i: i for i in sins}
    omap = {o: o for o in souts}
    if kind == 'same_labels':
        return sub, imap, omap
    if kind in ('relabel_all', 'relabel_inner'):
        mp = {l: 'q%d_%s' % (k, l) for l in sub.gates if kind == 'relabel_all' or (l not in sins and l not in souts)}
        s2 = netgen.relabel(sub, mp)
        return s2, {i: mp.get(i, i) for i in sins}, {o: mp.get(o, o) for o in souts}
    if kind == 'missing_output':
        if len(souts) > 0:
            omap.pop(souts[0])
        return sub, imap, omap
    if kind == 'wrong_function':
        g2 = dict(sub.gates)
        cand = [l for l, (t, o) in g2.items() if t in ('AND', 'OR', 'XOR', 'NAND', 'NOR', 'NXOR')]
        if cand:
            l = rng.choice(cand)
            t, o = g2[l]
            g2[l] = ({'AND': 'NAND', 'OR': 'XOR', 'XOR': 'OR', 'NAND': 'AND', 'NOR': 'OR', 'NXOR': 'XOR'}[t], o)
        return refsem.Net(list(sub.inputs), list(sub.outputs), g2), imap, omap
    if kind == 'simplified':
        # equivalent rewrite by the library's own passes; outputs may be remapped to other labels
        c = netgen.build(sub)
        s = cleanup(c, use_heavy=True)
        s2 = refsem.net_of(s)
        # inputs dropped by nothing (cleanup keeps inputs); map outputs positionally
        mp = {l: 'z%d_%s' % (k, l) for l in s2.gates if l not in sins}
        s3 = netgen.relabel(s2, mp)
        om = {}
        for o, no in zip(sub.outputs, s3.outputs):
            om[o] = no
        # an output that collapsed onto an input cannot be expressed -> let the library decide (documented error expected)
        return refsem.Net(list(s3.inputs), list(s3.outputs), s3.gates), {i: i for i in sins}, om
    if kind == 'resynth':
        # sum-of-minterms re-synthesis of each slice output over the slice inputs
        cols, mask, ns = refsem.canonical_columns(len(sins))
        vals = refsem.eval_net(sub, dict(zip(sins, cols)), mask)
        g = {i: ('INPUT', ()) for i in sins}
        om = {}
        cnt = [0]

        def fresh(p):
            cnt[0] += 1
            return 'y%d_%s%d' % (k, p, cnt[0])

        negs = {}
        for i in sins:
            nl = fresh('n')
            g[nl] = ('NOT', (i,))
            negs[i] = nl
        for o in souts:
            terms = []
            for a in range(ns):
                if (vals[o] >> a) & 1:
                    lits = [(sins[j] if (a >> (len(sins) - 1 - j)) & 1 else negs[sins[j]]) for j in range(len(sins))]
                    if len(lits) == 1:
                        tl = fresh('t')
                        g[tl] = ('IFF', (lits[0],))
                    else:
                        tl = fresh('t')
                        g[tl] = ('AND', tuple(lits))
                    terms.append(tl)
            ol = fresh('o')
            if not terms:
                g[ol] = ('ALWAYS_FALSE', ())
            elif len(terms) == 1:
                g[ol] = ('IFF', (terms[0],))
            else:
                g[ol] = ('OR', tuple(terms))
            om[o] = ol
        if not sins:
            raise ValueError('no slice inputs')
        return refsem.Net(list(sins), [om[o] for o in souts], g), {i: i for i in sins}, om
    raise KeyError(kind)


def gen_case(rng, spec):
    shape = rng.choice(netgen.SHAPES)
    types = None
    if rng.random() < 0.3:
        types = ['LNOT', 'RNOT', 'LIFF', 'RIFF', 'LT', 'GT', 'LEQ', 'GEQ', 'AND', 'OR', 'XOR', 'NOT']
    net = netgen.rand_net(rng, shape=shape, max_in=4, max_g=spec.get('max_g', 10), max_arity=4, types=types,
                          p_repeat_operand=rng.choice([0.2, 0.4]) if rng.random() < 0.4 else None)
    if spec.get('kind') == 'deep':
        return {'kind': 'random', 'shape': 'deep', 'net': netgen.deep_description(rng, spec['depths']),
                'rseed': rng.getrandbits(32), 'history': None, 'shuffle': False, 'block': rng.random() < 0.5,
                'cofactors': 6, 'slices': 3}
    return {'kind': 'random', 'shape': shape, 'net': netgen.describe(net), 'rseed': rng.getrandbits(32),
            'history': rng.getrandbits(32) if rng.random() < 0.4 else None,
            'shuffle': rng.random() < 0.25, 'block': rng.random() < 0.4, 'cofactors': 20, 'slices': 5}


def run_shard(spec, ctx):
    install(ctx)
    if spec.get('kind') == 'suite':
        from vt import suite
        import sys
        suite.run(sys.modules[__name__], ctx, select=spec.get('select'))
        return
    for i in range(spec['count']):
        if ctx.out_of_time():
            ctx.count('stopped_on_budget')
            break
        check_case(gen_case(ctx.rng, spec), ctx)


def replay(case, ctx):
    install(ctx)
    check_case(case, ctx)
