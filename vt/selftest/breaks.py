"""Break-injection self-test (not part of any verdict): each entry is a realistic
textual change to cirbo that breaks one property; the property's quick check,
pointed at a scratch worktree carrying the change (VT_REPO), must exit 1.

usage: python -m vt.selftest.breaks [ids or names...]"""
import json
import os
import shutil
import subprocess
import sys
import tempfile

HERE = os.path.dirname(os.path.dirname(os.path.dirname(os.path.abspath(__file__))))

# (name, property, file, old, new)
BREAKS = [
    ('c01_swap_gt_lt', 'C01', 'cirbo/core/circuit/operators.py',
     'def gt_(arg1: GateState, arg2: GateState) -> GateState:\n    return _gt[', 'def gt_(arg1: GateState, arg2: GateState) -> GateState:\n    return _lt['),
    ('c01_or_two_operands', 'C01', 'cirbo/core/circuit/operators.py',
     '        lambda p1, p2: _or_truth_table[\n            index_from_state(p1) * GateStateNumber + index_from_state(p2)\n        ],\n        (arg1, arg2, *args),',
     '        lambda p1, p2: _or_truth_table[\n            index_from_state(p1) * GateStateNumber + index_from_state(p2)\n        ],\n        (arg1, arg2, *args[:1]),'),
    ('c01_tt_to_gate_type', 'C01', 'cirbo/synthesis/circuit_search.py', '    (0, 0, 1, 0): GT,\n', '    (0, 0, 1, 0): LT,\n'),
    ('c01_geq_clause', 'C01', 'cirbo/sat/cnf/tseytin.py', '    cnf.append([-a, c])\n    cnf.append([b, c])\n    cnf.append([a, -b, -c])', '    cnf.append([-a, c])\n    cnf.append([-b, c])\n    cnf.append([a, -b, -c])'),
    ('c02_no_add_user_emplace', 'C02', 'cirbo/core/circuit/circuit.py',
     '        for operand in operands:\n            self._add_user(operand, label)\n\n        self._gates[label] = gate.Gate(label, gate_type, operands, **kwargs)',
     '        for operand in set(operands):\n            self._add_user(operand, label)\n\n        self._gates[label] = gate.Gate(label, gate_type, operands, **kwargs)'),
    ('c02_copy_shares_outputs', 'C02', 'cirbo/core/circuit/circuit.py',
     '        check_gates_exist(outputs, self)\n        self._outputs = list(outputs)', '        check_gates_exist(outputs, self)\n        self._outputs = outputs if isinstance(outputs, list) else list(outputs)'),
    ('c02_rename_skips_blocks', 'C02', 'cirbo/core/circuit/circuit.py',
     '        for block in self.blocks.values():\n            block._rename_gate(old_label, new_label)\n\n        return self',
     '        for block in self.blocks.values():\n            if old_label in block.gates:\n                block._rename_gate(old_label, new_label)\n\n        return self'),
    ('c03_muo_odd_parent', 'C03', 'cirbo/minimization/simplification/merge_unary_operators.py',
     "                return _not_to_even_parent.get(gate_label, gate_label)", "                return _not_to_odd_parent.get(gate_label, gate_label) if gate_label in _not_to_even_parent else gate_label"),
    ('c03_mdg_sort_asymmetric', 'C03', 'cirbo/minimization/simplification/merge_duplicate_gates.py',
     '            if _gate_type.is_symmetric:\n                _operands = tuple(sorted(_operands))', '            if len(_operands) == 2:\n                _operands = tuple(sorted(_operands))'),
    ('c03_rrg_set_outputs', 'C03', 'cirbo/minimization/simplification/remove_redundant_gates.py',
     '        _new_circuit.set_outputs(circuit.outputs)', '        _new_circuit.set_outputs(list(dict.fromkeys(circuit.outputs)))'),
    ('c04_inputs_not_reversed', 'C04', 'cirbo/minimization/subcircuit.py', '                inputs=inputs_lst[::-1],', '                inputs=inputs_lst,'),
    ('c04_negation_dropped_again', 'C04', 'cirbo/minimization/subcircuit.py',
     '                    circuit.emplace_gate(new_output, NOT, (negated_leaf,))', '                    circuit.emplace_gate(new_output, NOT, (negated_leaf,))\n                    new_output = negated_leaf if len(subcircuit.outputs) > 1 else new_output'),
    ('c05_flip_lt', 'C05', 'cirbo/sat/cnf/tseytin.py', '    cnf.append([-a, -c])\n    cnf.append([b, -c])\n    cnf.append([a, -b, c])', '    cnf.append([-a, -c])\n    cnf.append([b, -c])\n    cnf.append([a, b, c])'),
    ('c05_skip_second_output_unit', 'C05', 'cirbo/sat/cnf/tseytin.py',
     '        output_lit = process_gate(circuit.output_at_index(output_index))\n        cnf.append([output_lit])',
     '        output_lit = process_gate(circuit.output_at_index(output_index))\n        if [output_lit] not in cnf[:1]:\n            cnf.append([output_lit])\n        if len(outputs) > 2 and output_index == outputs[1]:\n            cnf.pop()'),
    ('c06_forbid_wire_off_by_one', 'C06', 'cirbo/synthesis/circuit_search.py', '            if other >= to_gate:\n                break', '            if other >= to_gate - 1:\n                break'),
    ('c06_dont_care_any', 'C06', 'cirbo/synthesis/circuit_search.py', '        return all((o == DontCare for o in output_col))', '        return any((o == DontCare for o in output_col))'),
    ('c07_stockmeyer_swap', 'C07', 'cirbo/synthesis/generation/arithmetics/summation.py',
     "    w1 = add_gate_from_tt(circuit, g2, g3, '0110')\n    return list([w0, w1])", "    w1 = add_gate_from_tt(circuit, g2, g3, '0110')\n    return list([w1, w0])"),
    ('c07_forget_big_endian', 'C07', 'cirbo/synthesis/generation/arithmetics/summation.py',
     '    d[n] = [d[n - 1][1]]\n    return reverse_if_big_endian([d[i][0] for i in range(n + 1)], big_endian)', '    d[n] = [d[n - 1][1]]\n    return [d[i][0] for i in range(n + 1)]'),
    ('c08_karatsuba_truncation', 'C08', 'cirbo/synthesis/generation/arithmetics/multiplication.py',
     '    return reverse_if_big_endian(final_res[:out_size], big_endian)\n\n\ndef add_mul_karatsuba_with_efficient_sum(',
     '    return reverse_if_big_endian(final_res, big_endian)\n\n\ndef add_mul_karatsuba_with_efficient_sum('),
    ('c08_square_shift', 'C08', 'cirbo/synthesis/generation/arithmetics/square.py', 'add_sum_two_numbers_with_shift(circuit, mid + 1, aa, ab)', 'add_sum_two_numbers_with_shift(circuit, mid, aa, ab)'),
    ('c08_wallace_column', 'C08', 'cirbo/synthesis/generation/arithmetics/multiplication.py',
     '                        if col + i < n + m:\n                            cn[col + i][2 * (row // 3) + i] = res[i]', '                        if col + i < n + m - 1:\n                            cn[col + i][2 * (row // 3) + i] = res[i]'),
    ('c09_divmod_zero_mask', 'C09', 'cirbo/synthesis/generation/arithmetics/div_mod.py',
     '    for i in range(n):\n        now[i] = add_gate_from_tt(circuit, now[i], pref[-1], "0001")', '    for i in range(1, n):\n        now[i] = add_gate_from_tt(circuit, now[i], pref[-1], "0001")'),
    ('c09_plus_one_carry', 'C09', 'cirbo/synthesis/generation/generation.py',
     '        elif i == inp_len:\n            circuit.add_gate(Gate(result_labels[i], gate.IFF, (carries[i - 1],)))', '        elif i == inp_len:\n            circuit.add_gate(Gate(result_labels[i], gate.IFF, (carries[max(i - 2, 0)],)))'),
    ('c10_keep_connector_outputs', 'C10', 'cirbo/core/circuit/circuit.py',
     '            [output for output in self._outputs if output not in this_connectors]\n', '            [output for output in self._outputs if output not in this_connectors[1:]]\n'),
    ('c10_block_inputs_no_prefix', 'C10', 'cirbo/core/circuit/circuit.py',
     '                inputs=[old_to_new_names[_input] for _input in other.inputs],\n                gates=list(gates_for_block),',
     '                inputs=[mapping.get(_input, _input) for _input in other.inputs],\n                gates=list(gates_for_block),'),
    ('c11_parse_buff_as_not', 'C11', 'cirbo/core/parser/bench.py', '            BUFF_NAME: self._process_iff,', '            BUFF_NAME: self._process_not,'),
    ('c11_print_operands_sorted', 'C11', 'cirbo/core/circuit/gate.py',
     '        return f"{self._label} = {self.gate_type.name}({\', \'.join(self._operands)})"', '        return f"{self._label} = {self.gate_type.name}({\', \'.join(sorted(self._operands))})"'),
    ('c12_tt_equal_input_little_endian', 'C12', 'cirbo/core/truth_table.py',
     "        for idx, output_value in enumerate(self._table[output_index]):\n            input_value = get_bit_value(\n                idx, bit_idx=input_index, bit_size=self.input_size\n            )\n            if output_value != input_value:",
     "        for idx, output_value in enumerate(self._table[output_index]):\n            input_value = bool((idx >> input_index) & 1)\n            if output_value != input_value:"),
    ('c12_significant_skip_last', 'C12', 'cirbo/core/python_function.py',
     '            for input_index in range(self.input_size)\n            if self.is_dependent_on_input_at(output_index, input_index)', '            for input_index in range(max(self.input_size - 1, 1))\n            if self.is_dependent_on_input_at(output_index, input_index)'),
    ('c13_and_instead_of_or', 'C13', 'cirbo/sat/miter.py', 'OR_NAME, gate.OR if len(xor_outputs) > 1 else gate.IFF, xor_outputs', 'OR_NAME, gate.AND if len(xor_outputs) > 2 else (gate.OR if len(xor_outputs) > 1 else gate.IFF), xor_outputs'),
    ('c14_leq_as_and', 'C14', 'cirbo/core/circuit/converters.py',
     "        _gate.label, gate.OR, (new_gate_label, _gate.operands[1])\n    )\n\n    _add_new_gate_to_blocks(_gate.label, new_gate_label, circuit)\n\n\ndef _convert_gt",
     "        _gate.label, gate.OR if _gate.operands[0] != _gate.operands[1] else gate.AND, (new_gate_label, _gate.operands[1])\n    )\n\n    _add_new_gate_to_blocks(_gate.label, new_gate_label, circuit)\n\n\ndef _convert_gt"),
    ('c14_skip_blocks', 'C14', 'cirbo/core/circuit/converters.py',
     "        if old_gate_label in block.gates:\n            block._gates.append(new_gate_label)", "        if old_gate_label in block.gates and old_gate_label in block.outputs:\n            block._gates.append(new_gate_label)"),
    ('c15_gt_true_undefined', 'C15', 'cirbo/core/circuit/operators.py',
     '_gt: list[GateState] = [\n    False,  # arg1 = False\n    False,\n    False,\n    True,  # arg1 = True\n    False,\n    Undefined,', '_gt: list[GateState] = [\n    False,  # arg1 = False\n    False,\n    False,\n    True,  # arg1 = True\n    False,\n    True,'),
    ('c16_word_size', 'C16', 'cirbo/circuits_db/circuits_encoding.py',
     '            len(circuit.inputs), len(circuit.outputs), circuit.size - 1\n        ).bit_length()', '            len(circuit.inputs) - 1, len(circuit.outputs), circuit.size - 1\n        ).bit_length()'),
    ('c16_drop_expect_eof', 'C16', 'cirbo/circuits_db/binary_dict_io.py', '    _expect_eof(stream)\n    return data', '    return data'),
    ('c17_forget_not', 'C17', 'cirbo/circuits_db/normalization.py',
     '            if negation:\n                output_not = _negate_gate(circuit, output)\n                new_outputs.append(output_not)', '            if negation and len(self.negations) < 3:\n                output_not = _negate_gate(circuit, output)\n                new_outputs.append(output_not)'),
    ('c17_model_keeps_first', 'C17', 'cirbo/circuits_db/db.py', '            if result_size is None or circuit_size < result_size:', '            if result_size is None:'),
    ('c18_post_before', 'C18', 'cirbo/core/circuit/transformer.py',
     '        if imply_deps:\n            yield from self.linearize_transformers(self._pre_transformers)\n        yield self\n        if imply_deps:\n            yield from self.linearize_transformers(self._post_transformers)',
     '        if imply_deps:\n            yield from self.linearize_transformers(self._pre_transformers)\n            yield from self.linearize_transformers(self._post_transformers)\n        yield self'),
    ('c18_rrg_eq_ignores_flag', 'C18', 'cirbo/minimization/simplification/remove_redundant_gates.py',
     '        return (\n            super().__eq__(other)\n            and self._allow_inputs_removal == other._allow_inputs_removal\n        )', '        return super().__eq__(other)'),
    ('c19_rename_skips_outputs', 'C19', 'cirbo/core/circuit/circuit.py',
     '            for idx in self.all_indexes_of_output(old_label):\n                self._outputs[idx] = new_label', '            self._outputs[self.index_of_output(old_label)] = new_label'),
    ('c19_remove_keeps_output', 'C19', 'cirbo/core/circuit/circuit.py',
     '            self._outputs = [output for output in self.outputs if output != gate_label]', '            self._outputs.remove(gate_label)'),
    ('c20_mark_visited_on_enter', 'C20', 'cirbo/core/circuit/circuit.py',
     '            elif gate_states[current_elem.label] == TraverseState.ENTERED:\n                on_exit_hook(current_elem, gate_states)', '            elif gate_states[current_elem.label] == TraverseState.ENTERED:\n                if queue.count(current_elem.label) == 1:\n                    on_exit_hook(current_elem, gate_states)'),
    ('c20_cycle_hook_visited', 'C20', 'cirbo/core/circuit/validation.py', 'if gate_states[gate.label] == TraverseState.ENTERED:', 'if gate_states[gate.label] == TraverseState.ENTERED and gate.label in circuit.outputs:'),
]


def sh(cmd, **kw):
    r = subprocess.run(cmd, capture_output=True, text=True, **kw)
    return r.returncode, (r.stdout or '') + (r.stderr or '')


def main(argv):
    sel = set(argv)
    rows = []
    for name, prop, rel, old, new in BREAKS:
        if sel and name not in sel and prop not in sel:
            continue
        d = tempfile.mkdtemp(prefix='vt_break_', dir=os.environ.get('TMPDIR', '/tmp'))
        os.rmdir(d)
        rc, out = sh(['git', '-C', '/repo', 'worktree', 'add', '-q', '--detach', d, 'HEAD'])
        try:
            p = os.path.join(d, rel)
            s = open(p).read()
            if s.count(old) != 1:
                rows.append((name, prop, 'STALE (pattern matches %d times)' % s.count(old)))
                print(rows[-1], flush=True)
                continue
            open(p, 'w').write(s.replace(old, new))
            rc, out = sh(['/venv/bin/python', '-c', 'import cirbo.core, cirbo.circuits_db'], cwd=d,
                         env=dict(os.environ, PYTHONPATH=d, PYTHONDONTWRITEBYTECODE='1'))
            if rc != 0:
                rows.append((name, prop, 'DOES NOT IMPORT'))
                print(rows[-1], out[-300:], flush=True)
                continue
            env = dict(os.environ, VT_REPO=d)
            rc, out = sh([os.path.join(HERE, 'check'), prop, '--tier', 'quick', '--no-evidence'], cwd=HERE, env=env)
            first = [l for l in out.split('\n') if 'violation:' in l or l.startswith('INCONCLUSIVE')][:1]
            rows.append((name, prop, {0: 'MISSED', 1: 'DETECTED', 2: 'INCONCLUSIVE'}.get(rc, 'rc=%d' % rc), first[0][:200] if first else ''))
            print(rows[-1], flush=True)
        finally:
            sh(['git', '-C', '/repo', 'worktree', 'remove', '--force', d])
            shutil.rmtree(d, ignore_errors=True)
    json.dump(rows, open(os.path.join(HERE, 'vt', 'selftest', 'last_result.json'), 'w'), indent=1)
    bad = [r for r in rows if r[2] != 'DETECTED']
    print('%d breaks, %d detected, not detected: %r' % (len(rows), len(rows) - len(bad), [r[0] for r in bad]))


if __name__ == '__main__':
    main(sys.argv[1:])
