"""Shard worker: fresh interpreter per shard.  usage: python -m vt.worker <prop> <spec.json> <out.json>"""
import faulthandler
import importlib
import json
import random
import sys
import traceback


def main():
    prop, spec_path, out_path = sys.argv[1:4]
    spec = json.load(open(spec_path))
    faulthandler.enable()
    # the interpreter's default recursion limit is kept: code under test that recurses per logic level must fail here
    # as it would for a user (oracles in vt/ are iterative)
    if spec.get('debug_logging'):
        import logging
        import os
        logging.basicConfig(level=logging.DEBUG, stream=open(os.devnull, 'w'))
        logging.getLogger('cirbo').setLevel(logging.DEBUG)
    from vt import monitor
    from vt.ctx import Ctx
    ctx = Ctx(prop, spec)
    monitor.seed_uuid('%s:%s:%s' % (prop, spec.get('seed', 0), spec.get('shard', 0)))
    random.seed('%s:%s' % (spec.get('seed', 0), spec.get('shard', 0)))
    result = {}
    try:
        mod = importlib.import_module('vt.props.' + prop.lower())
        reach = None
        if spec.get('reach', True) and getattr(mod, 'ANCHOR_FILES', None):
            reach = monitor.Reach(mod.ANCHOR_FILES)
            reach.start()
        try:
            if 'replay' in spec:
                mod.replay(spec['replay'], ctx)
            else:
                mod.run_shard(spec, ctx)
        finally:
            if reach is not None:
                reach.stop()
                result['reach'] = reach.result()
        for e in monitor.ERRORS:
            ctx.note_inconclusive(e)
        sh = sys.modules.get('pysat.solvers')
        if sh is not None and getattr(sh, 'STATS', None) and sh.STATS.get('solve'):
            for k in ('solve', 'sat', 'unsat', 'unsat_rechecked', 'cap_hits'):
                ctx.count('solver_shim:' + k, sh.STATS.get(k, 0))
        result.update(ctx.dump())
        result['status'] = 'ok'
    except BaseException as e:  # harness failure -> inconclusive, never a verdict
        result.update(ctx.dump())
        result['status'] = 'harness_error'
        result['error'] = ''.join(traceback.format_exception(e))[-4000:]
    with open(out_path, 'w') as f:
        json.dump(result, f)


if __name__ == '__main__':
    main()
