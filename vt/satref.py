"""Tiny complete DPLL with unit propagation: decision + model enumeration.

Independent of cirbo and of z3.  Clauses are lists of non-zero ints.
"""
from __future__ import annotations

import sys


def _simplify(clauses, lit):
    out = []
    for c in clauses:
        if lit in c:
            continue
        if -lit in c:
            c = [x for x in c if x != -lit]
            if not c:
                return None
        out.append(c)
    return out


def _propagate(clauses, assign):
    """Unit propagation to fixpoint (occurrence lists, linear in the formula size).  `clauses` are already simplified
    w.r.t. `assign`; newly implied literals are recorded in `assign`.  Returns the simplified clause list or None."""
    units = [c[0] for c in clauses if len(c) == 1]
    if not units:
        return clauses
    occ = {}
    for i, c in enumerate(clauses):
        for l in c:
            occ.setdefault(l, []).append(i)
    remaining = [len(c) for c in clauses]
    satisfied = [False] * len(clauses)
    val = {}
    queue = list(units)
    while queue:
        u = queue.pop()
        v = abs(u)
        if v in val:
            if val[v] != (u > 0):
                return None
            continue
        val[v] = u > 0
        assign[v] = u > 0
        for i in occ.get(u, ()):
            satisfied[i] = True
        for i in occ.get(-u, ()):
            if satisfied[i]:
                continue
            remaining[i] -= 1
            if remaining[i] == 0:
                return None
            if remaining[i] == 1:
                for l in clauses[i]:
                    lv = abs(l)
                    if lv not in val:
                        queue.append(l)
                        break
                    if val[lv] == (l > 0):
                        satisfied[i] = True
                        break
    out = []
    for i, c in enumerate(clauses):
        if satisfied[i]:
            continue
        c2 = []
        sat = False
        for l in c:
            lv = abs(l)
            if lv in val:
                if val[lv] == (l > 0):
                    sat = True
                    break
            else:
                c2.append(l)
        if sat:
            continue
        if not c2:
            return None
        out.append(c2)
    return out


def solve(clauses, assumptions=()):
    """Return a model dict var->bool (only constrained vars) or None."""
    cl = []
    for c in clauses:
        c = list(dict.fromkeys(c))
        if not c:
            return None
        if any(-x in c for x in c):
            continue
        cl.append(c)
    assign = {}
    for a in assumptions:
        cl = _simplify(cl, a)
        if cl is None:
            return None
        if assign.get(abs(a), a > 0) != (a > 0):
            return None
        assign[abs(a)] = a > 0
    old = sys.getrecursionlimit()
    sys.setrecursionlimit(max(old, 10000))
    try:
        return _dpll(cl, assign)
    finally:
        sys.setrecursionlimit(old)


def _dpll(clauses, assign):
    clauses = _propagate(clauses, assign)
    if clauses is None:
        return None
    if not clauses:
        return assign
    # choose literal from a shortest clause
    best = min(clauses, key=len)
    lit = best[0]
    for l in (lit, -lit):
        a2 = dict(assign)
        a2[abs(l)] = l > 0
        c2 = _simplify(clauses, l)
        if c2 is None:
            continue
        r = _dpll(c2, a2)
        if r is not None:
            return r
    return None


def count_models(clauses, variables, assumptions=(), limit=None):
    """Enumerate all models over `variables` (iterable of ints).

    Returns list of dicts var->bool (total over `variables`).  `limit` stops
    early after that many models.
    """
    variables = sorted(set(variables))
    cl = []
    for c in clauses:
        c = list(dict.fromkeys(c))
        if not c:
            return []
        if any(-x in c for x in c):
            continue
        cl.append(c)
    assign = {}
    for a in assumptions:
        if abs(a) in assign and assign[abs(a)] != (a > 0):
            return []
        assign[abs(a)] = a > 0
        cl = _simplify(cl, a)
        if cl is None:
            return []
    out = []
    old = sys.getrecursionlimit()
    sys.setrecursionlimit(max(old, 10000))
    try:
        _enum(cl, assign, variables, out, limit)
    finally:
        sys.setrecursionlimit(old)
    return out


def _enum(clauses, assign, variables, out, limit):
    if limit is not None and len(out) >= limit:
        return
    assign = dict(assign)
    clauses = _propagate(clauses, assign)
    if clauses is None:
        return
    free = None
    for v in variables:
        if v not in assign:
            free = v
            break
    if free is None:
        if not clauses:
            out.append({v: assign[v] for v in variables})
        else:
            # remaining clauses over variables outside `variables`: need sat
            if _dpll(clauses, dict(assign)) is not None:
                out.append({v: assign[v] for v in variables})
        return
    for l in (free, -free):
        c2 = _simplify(clauses, l)
        if c2 is None:
            continue
        a2 = dict(assign)
        a2[free] = l > 0
        _enum(c2, a2, variables, out, limit)


def check_model(clauses, model_lits):
    s = set(model_lits)
    for c in clauses:
        if not any(l in s for l in c):
            return False
    return True
