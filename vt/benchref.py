"""Independent bench reader and printer (oracle side of C11).  Imports nothing
from cirbo.  The reader implements what a bench text denotes:

  INPUT(x) / OUTPUT(x)                 declarations (keyword at line start, no '=')
  name = OP(a, b, ...)                 gate; OP case-insensitive; BUFF = IFF
  name = vdd                           constant true (alias, any case)
  '#...' lines and empty lines          ignored
Declarations may come in any order (use before definition)."""
from __future__ import annotations

import random
import re

from vt.refsem import CONST, Net, TYPES

_OPS = {t for t in TYPES if t != 'INPUT'}


class BenchSyntax(Exception):
    pass


def parse(text: str) -> Net:
    inputs, outputs, gates = [], [], {}
    order = []
    for raw in text.split('\n'):
        line = raw.rstrip('\r')
        if line.strip() == '' or line.lstrip().startswith('#'):
            continue
        if '=' not in line:
            m = re.match(r'^\s*(INPUT|OUTPUT)\s*\(\s*([^\s(),=]+)\s*\)\s*$', line, re.I)
            if not m:
                raise BenchSyntax(line)
            if m.group(1).upper() == 'INPUT':
                inputs.append(m.group(2))
                order.append(m.group(2))
                gates[m.group(2)] = ('INPUT', ())
            else:
                outputs.append(m.group(2))
            continue
        name, body = line.split('=', 1)
        name = name.strip()
        body = body.strip()
        if not name or re.search(r'[\s(),]', name):
            raise BenchSyntax(line)
        if body.upper() == 'VDD':
            gates[name] = ('ALWAYS_TRUE', ())
            continue
        m = re.match(r'^([A-Za-z_]+)\s*\((.*)\)$', body)
        if not m:
            raise BenchSyntax(line)
        op = m.group(1).upper()
        if op == 'BUFF':
            op = 'IFF'
        if op not in _OPS:
            raise BenchSyntax(line)
        args = [a.strip() for a in m.group(2).split(',')]
        if args == ['']:
            args = []
        if any(a == '' or re.search(r'[\s()=]', a) for a in args):
            raise BenchSyntax(line)
        if name in gates:
            raise BenchSyntax('duplicate definition ' + name)
        gates[name] = (op, tuple(args))
    for l, (t, ops) in gates.items():
        for o in ops:
            if o not in gates:
                raise BenchSyntax('undefined operand %s' % o)
    for o in outputs:
        if o not in gates:
            raise BenchSyntax('undefined output %s' % o)
    return Net(inputs, outputs, gates)


def render(net: Net, rng: random.Random, *, shuffle=True, case_ops=True, comments=True, blanks=True, spaces=True,
           aliases=True) -> str:
    """Independent printer: one admissible layout of the netlist, chosen by rng.
    INPUT declarations keep their relative order (it defines the interface), so do
    OUTPUT declarations; everything else may be permuted (use before definition)."""
    decl_in = ['INPUT(%s)' % i if not spaces or rng.random() < 0.7 else 'INPUT( %s )' % i for i in net.inputs]
    decl_out = ['OUTPUT(%s)' % o if not spaces or rng.random() < 0.7 else 'OUTPUT( %s )' % o for o in net.outputs]
    glines = []
    for l, (t, ops) in net.gates.items():
        if t == 'INPUT':
            continue
        if aliases and t == 'ALWAYS_TRUE' and not ops and rng.random() < 0.4:
            glines.append('%s = %s' % (l, rng.choice(['vdd', 'VDD', 'Vdd'])))
            continue
        name = t
        if t == 'IFF' and (not aliases or rng.random() < 0.6):
            name = 'BUFF'
        if case_ops:
            r = rng.random()
            if r < 0.3:
                name = name.lower()
            elif r < 0.45:
                name = name.capitalize()
            elif r < 0.55:
                name = ''.join(ch.lower() if rng.random() < 0.5 else ch.upper() for ch in name)
        if spaces:
            eq = rng.choice([' = ', '=', ' =', '= ', '  =  '])
            sep = rng.choice([', ', ',', ' , ', ',  '])
            lp, rp = rng.choice([('(', ')'), ('( ', ' )'), (' (', ')')])
        else:
            eq, sep, lp, rp = ' = ', ', ', '(', ')'
        glines.append('%s%s%s%s%s%s' % (l, eq, name, lp, sep.join(ops), rp))
    if shuffle:
        # interleave the three groups keeping the relative order inside the INPUT and OUTPUT groups
        rng.shuffle(glines)
        tagged = [(0, x) for x in decl_in] + [(1, x) for x in decl_out] + [(2, x) for x in glines]
        slots = [t for t, _ in tagged]
        rng.shuffle(slots)
        its = {0: iter(decl_in), 1: iter(decl_out), 2: iter(glines)}
        lines = [next(its[s]) for s in slots]
    else:
        lines = decl_in + glines + decl_out
    out = []
    for ln in lines:
        if comments and rng.random() < 0.15:
            out.append(rng.choice(['# comment', '#', '# INPUT(zz)', '#x = AND(a, b)', '# OUTPUT(q) = 1']))
        if blanks and rng.random() < 0.15:
            out.append('')
        out.append(ln)
    if blanks and rng.random() < 0.3:
        out.append('')
    text = '\n'.join(out)
    if rng.random() < 0.5:
        text += '\n'
    return text
