"""Check driver: shards a property's workload over fresh sub-processes,
aggregates monitor observations, writes evidence, prints the verdict lines.

exit 0 = held on everything explored, 1 = VIOLATION, 2 = INCONCLUSIVE."""
from __future__ import annotations

import argparse
import concurrent.futures as cf
import fcntl
import importlib
import json
import os
import shutil
import subprocess
import sys
import tempfile
import time

HERE = os.path.dirname(os.path.dirname(os.path.abspath(__file__)))
REPO = os.environ.get('VT_REPO', '/repo')
PY = '/venv/bin/python'
DEPS = os.path.join(HERE, '.deps')
NCPU = min(16, os.cpu_count() or 4)


def ensure_deps():
    marker = os.path.join(DEPS, '.ok')
    if os.path.exists(marker):
        return
    os.makedirs(DEPS, exist_ok=True)
    with open(os.path.join(HERE, '.lock'), 'w') as lk:
        fcntl.flock(lk, fcntl.LOCK_EX)
        if os.path.exists(marker):
            return
        env = dict(os.environ, PIP_NO_INDEX='1')
        r = subprocess.run([PY, '-m', 'pip', 'install', '-q', '--no-index', '--find-links',
                            '/opt/veriftools/wheels', '--target', DEPS, 'z3-solver', 'icontract', 'deal'],
                           env=env, capture_output=True, text=True)
        if r.returncode != 0:
            sys.stderr.write(r.stdout + r.stderr)
            raise SystemExit(2)
        open(marker, 'w').write('ok\n')


def child_env(hashseed='0', extra=None):
    env = dict(os.environ)
    env['PYTHONPATH'] = os.pathsep.join([REPO, HERE, DEPS, os.path.join(HERE, 'vt', 'shims')])
    env['PYTHONDONTWRITEBYTECODE'] = '1'
    env['PYTHONHASHSEED'] = str(hashseed)
    env['VT_REPO'] = REPO
    env.pop('SPBSAT_CIRBO_VERIF', None)
    if extra:
        env.update({k: str(v) for k, v in extra.items()})
    return env


def run_shard(prop, spec, workdir, timeout):
    sp = os.path.join(workdir, 'spec_%s.json' % spec['shard'])
    op = os.path.join(workdir, 'out_%s.json' % spec['shard'])
    json.dump(spec, open(sp, 'w'))
    t0 = time.time()
    try:
        r = subprocess.run([PY, '-m', 'vt.worker', prop, sp, op], env=child_env(spec.get('hashseed', '0'),
                                                                             spec.get('env')),
                           cwd=HERE, capture_output=True, text=True, timeout=timeout)
    except subprocess.TimeoutExpired:
        return {'status': 'timeout', 'shard': spec['shard'], 'wall_s': time.time() - t0}
    if not os.path.exists(op):
        return {'status': 'crashed', 'shard': spec['shard'], 'stderr': (r.stderr or '')[-3000:],
                'wall_s': time.time() - t0}
    res = json.load(open(op))
    res['shard'] = spec['shard']
    if res.get('status') != 'ok':
        res['stderr'] = (r.stderr or '')[-2000:]
    return res


def main(argv=None):
    ap = argparse.ArgumentParser()
    ap.add_argument('prop')
    ap.add_argument('--tier', default=os.environ.get('VERIF_TIER', 'quick'))
    ap.add_argument('--replay')
    ap.add_argument('--seed', type=int, default=int(os.environ.get('VERIF_SEED', '0') or 0))
    ap.add_argument('--jobs', type=int, default=NCPU)
    ap.add_argument('--no-evidence', action='store_true')
    a = ap.parse_args(argv)
    prop = a.prop.upper()
    tier = a.tier if a.tier in ('quick', 'thorough') else 'quick'
    ensure_deps()
    sys.path[:0] = [REPO, HERE, DEPS, os.path.join(HERE, 'vt', 'shims')]
    os.environ.setdefault('VT_REPO', REPO)
    t0 = time.time()
    mod = importlib.import_module('vt.props.' + prop.lower())
    from vt import findings as fnd
    workdir = tempfile.mkdtemp(prefix='vt_%s_' % prop, dir=os.environ.get('TMPDIR', '/tmp'))
    try:
        if a.replay:
            case = json.load(open(a.replay))
            rr = case['replay'].get('_rerun_shard') if isinstance(case['replay'], dict) else None
            if rr:
                # the violation depends on what the same process did before (objects kept across cases): re-run the
                # original shard, same seed / shard number / hash seed, up to and including the failing case
                sp = dict(rr['spec'])
                sp.update(count=rr['index'] + 1, budget_s=600, reach=False)
                specs = [sp]
            else:
                specs = [{'shard': 0, 'seed': case.get('seed', a.seed), 'tier': tier, 'replay': case['replay'],
                          'hashseed': case.get('hashseed', '0'), 'env': case.get('env'), 'budget_s': 600, 'reach': False,
                          'debug_logging': bool((case.get('extra') or {}).get('debug_logging'))}]
        else:
            specs = mod.shards(tier, a.seed)
            for i, s in enumerate(specs):
                s.setdefault('shard', i)
                s.setdefault('seed', a.seed)
                # str hashing differs between interpreter runs in real use: vary it over the shards (recorded per violation)
                s.setdefault('hashseed', str((int(a.seed) * 7 + i) % 5))
                # process-wide settings an embedding application may have changed: every third shard runs with the
                # library's loggers enabled for DEBUG (records go to a null sink)
                s.setdefault('debug_logging', (i + int(a.seed)) % 3 == 1)
                s.setdefault('tier', tier)
        results = []
        with cf.ThreadPoolExecutor(max_workers=a.jobs) as ex:
            futs = [ex.submit(run_shard, prop, s, workdir, s.get('budget_s', 60) * 3 + 120) for s in specs]
            for f in futs:
                results.append(f.result())
    finally:
        shutil.rmtree(workdir, ignore_errors=True)
    return finish(prop, mod, tier, a, specs, results, t0, fnd)


def finish(prop, mod, tier, a, specs, results, t0, fnd):
    evaluations = 0
    nontrivial = set()
    samples = []
    classes = {}
    monitors = {}
    violations = []
    viol_counts = {}
    inconclusive = []
    info = {}
    exhaustive_spaces = {}
    reach_lines = {}
    reach_funcs = {}
    shard_status = {}
    info['interpreter_hash_seeds'] = sorted({str(s.get('hashseed', '0')) for s in specs})
    info['shards_with_debug_logging'] = sum(1 for s in specs if s.get('debug_logging'))
    for r in results:
        st = r.get('status')
        shard_status[st] = shard_status.get(st, 0) + 1
        if st != 'ok':
            inconclusive.append('shard %s: %s %s' % (r.get('shard'), st, (r.get('error') or r.get('stderr') or '')[-600:]))
        evaluations += r.get('evaluations', 0)
        nontrivial.update(r.get('nontrivial', []))
        for s in r.get('samples', []):
            if len(samples) < 6:
                samples.append(s)
        for k, v in r.get('classes', {}).items():
            classes[k] = classes.get(k, 0) + v
        for k, d in r.get('monitors', {}).items():
            m = monitors.setdefault(k, {})
            for kk, vv in d.items():
                m[kk] = m.get(kk, 0) + vv
        violations.extend(r.get('violations', []))
        for k, v in r.get('violation_counts', {}).items():
            viol_counts[k] = viol_counts.get(k, 0) + v
        for x in r.get('inconclusive', []):
            if x not in inconclusive:
                inconclusive.append(x)
        for k, v in r.get('info', {}).items():
            if isinstance(v, (int, float)) and isinstance(info.get(k, 0), (int, float)):
                info[k] = info.get(k, 0) + v
            else:
                info.setdefault(k, v)
        for k, v in r.get('exhaustive_spaces', {}).items():
            exhaustive_spaces[k] = v
        for f, d in (r.get('reach') or {}).items():
            reach_lines.setdefault(f, set()).update(d['lines'])
            fd = reach_funcs.setdefault(f, {})
            for fn, n in d['functions'].items():
                fd[fn] = fd.get(fn, 0) + n

    if hasattr(mod, 'post_aggregate'):
        mod.post_aggregate(tier, info, exhaustive_spaces)

    # ---- required reach (absence => inconclusive, never "held")
    if not a.replay:
        req = getattr(mod, 'REQUIRED', {})
        if 'quick' in req or 'thorough' in req:
            req = req.get(tier, {})
        for k, mn in (req or {}).items():
            got = classes.get(k, 0)
            if k.startswith('mon:'):
                name, field = k[4:].rsplit('.', 1)
                got = monitors.get(name, {}).get(field, 0)
            if k.startswith('fn:'):
                f, fn = k[3:].split('::')
                got = reach_funcs.get(f, {}).get(fn, 0)
            if got < mn:
                inconclusive.append('required reach %s: %d < %d' % (k, got, mn))
        if evaluations == 0:
            inconclusive.append('no monitor evaluation happened')
        if len(nontrivial) < 2:
            inconclusive.append('fewer than 2 distinct non-trivial cases')

    # ---- classify violations against known findings
    kf = fnd.load()
    real, known = [], {}
    for v in violations:
        m = fnd.match(prop, v['signature'], kf)
        if m is not None:
            known.setdefault(m['id'], (m, []))[1].append(v)
        else:
            real.append(v)
    out_lines = []
    for fid, (m, vs) in sorted(known.items()):
        out_lines.append('KNOWN-FINDING: property=%s %s [%s]' % (prop, m.get('what', ''), fid))
    if not a.replay:
        for m in kf.get('open', []):
            if m.get('property') == prop and m['id'] not in known:
                out_lines.append('NOTE: listed finding %s was not observed in this run' % m['id'])

    replay_dir = os.path.join(HERE, 'replays', prop)
    seen_sig = set()
    viol_lines = []
    for v in real:
        sk = json.dumps(v['signature'], sort_keys=True)
        if sk in seen_sig:
            continue
        seen_sig.add(sk)
        os.makedirs(replay_dir, exist_ok=True)
        from vt.ctx import h64
        path = os.path.join(replay_dir, '%s.json' % h64(sk + json.dumps(v['replay'], sort_keys=True, default=str)))
        json.dump({'property': prop, 'signature': v['signature'], 'message': v['message'], 'replay': v['replay'],
                   'seed': a.seed, 'hashseed': (v.get('extra') or {}).get('hashseed', '0') if isinstance(v.get('extra'), dict) else '0',
                   'env': (v.get('extra') or {}).get('env') if isinstance(v.get('extra'), dict) else None,
                   'extra': v.get('extra')}, open(path, 'w'), indent=1, default=str)
        viol_lines.append((path, v))

    wall = time.time() - t0
    if not a.replay and not a.no_evidence:
        write_evidence(prop, mod, tier, a.seed, evaluations, nontrivial, samples, classes, monitors, len(real),
                       viol_counts, sorted(known), inconclusive, info, exhaustive_spaces, reach_lines, reach_funcs,
                       shard_status, wall)
    for l in out_lines:
        print(l)
    print('%s tier=%s seed=%d evaluations=%d distinct_nontrivial=%d shards=%s wall=%.1fs' % (
        prop, tier, a.seed, evaluations, len(nontrivial), shard_status, wall))
    if viol_lines:
        for path, v in viol_lines:
            print('  violation: %s :: %s' % (json.dumps(v['signature']), v['message'][:300].replace('\n', ' | ')))
            print('VIOLATION property=%s replay=%s' % (prop, path))
        for x in inconclusive[:5]:
            print('  (also inconclusive: %s)' % x.replace('\n', ' | ')[:800])
        return 1
    if inconclusive:
        for x in inconclusive[:10]:
            print('INCONCLUSIVE property=%s reason=%s' % (prop, x.replace('\n', ' | ')[:800]))
        return 2
    if a.replay:
        print('replay: no violation reproduced')
    return 0


def _ranges(nums):
    out = []
    i = 0
    while i < len(nums):
        j = i
        while j + 1 < len(nums) and nums[j + 1] == nums[j] + 1:
            j += 1
        out.append(str(nums[i]) if i == j else '%d-%d' % (nums[i], nums[j]))
        i = j + 1
    return ','.join(out)


def write_evidence(prop, mod, tier, seed, evaluations, nontrivial, samples, classes, monitors, nviol, viol_counts,
                   known, inconclusive, info, exhaustive_spaces, reach_lines, reach_funcs, shard_status, wall):
    from vt import monitor
    code_reach = {}
    for f in getattr(mod, 'ANCHOR_FILES', []):
        ex = monitor.executable_lines(os.path.join(REPO, f))
        hit = reach_lines.get(f, set())
        fns = reach_funcs.get(f, {})
        code_reach[f] = {'lines_hit': len(hit & ex) if ex else len(hit), 'lines_executable': len(ex),
                         'lines_not_hit': _ranges(sorted(ex - set(hit))) if ex else '',
                         'functions_entered': len(fns),
                         'calls': dict(sorted(fns.items(), key=lambda kv: -kv[1])[:40])}
    cov = {
        'evaluations': evaluations,
        'distinct_nontrivial': len(nontrivial),
        'rule': getattr(mod, 'RULE', ''),
        'samples': samples if samples else [],
        'monitors': monitors,
        'classes': dict(sorted(classes.items())),
        'code_reach': code_reach,
        'known_findings_seen': known,
        'violation_signatures': viol_counts,
        'inconclusive': inconclusive,
        'shards': shard_status,
        'info': info,
    }
    if exhaustive_spaces:
        cov['exhaustive_subspaces'] = exhaustive_spaces
        cov['exhaustive'] = False  # only the listed sub-spaces were enumerated completely
    ev = {
        'property_id': prop,
        'tier': tier,
        'seed': seed,
        'level': getattr(mod, 'LEVEL', 'exploration'),
        'coverage': cov,
        'assumptions': getattr(mod, 'ASSUMPTIONS', []),
        'wall_s': round(wall, 2),
        'violations': nviol,
    }
    os.makedirs(os.path.join(HERE, 'evidence'), exist_ok=True)
    tmp = os.path.join(HERE, 'evidence', '.%s.tmp' % prop)
    json.dump(ev, open(tmp, 'w'), indent=1, default=str)
    os.replace(tmp, os.path.join(HERE, 'evidence', '%s.json' % prop))


if __name__ == '__main__':
    sys.exit(main())
