"""Run the repository's own test-suite in-process with one property's monitors
installed (thorough tier shard kind 'suite').  The suite's examples become extra
monitored executions; a monitor that fires here is either a defect no test
asserts or an oracle that is stricter than the property - both must be read."""
from __future__ import annotations

import io
import os
import sys
import contextlib


class _Plugin:
    def __init__(self, cur_holders):
        self.cur = cur_holders
        self.n = 0
        self.failed = []

    def pytest_runtest_setup(self, item):
        for h in self.cur:
            h['case'] = {'kind': 'suite', 'test': item.nodeid}
        self.n += 1

    def pytest_runtest_logreport(self, report):
        if report.when == 'call' and report.failed:
            self.failed.append(report.nodeid)


def run(mod, ctx, extra_args=None, select=None):
    """mod must expose install(ctx) (already called by the caller) and the CUR dicts to tag."""
    import pytest
    from vt import monitor
    repo = monitor.REPO
    holders = []
    for name in ('CUR',):
        h = getattr(mod, name, None)
        if isinstance(h, dict):
            holders.append(h)
    for sub in ('_simp', '_arith'):
        m = sys.modules.get('vt.props.' + sub)
        if m is not None and isinstance(getattr(m, 'CUR', None), dict):
            holders.append(m.CUR)
    plug = _Plugin(holders)
    old = os.getcwd()
    os.chdir(repo)
    args = ['-q', '-p', 'no:cacheprovider', '--timeout=900', '--continue-on-collection-errors', '-x' if False else '-q',
            '--no-header', '-W', 'ignore']
    if select:
        args += list(select)
    else:
        args += ['tests']
    if extra_args:
        args += extra_args
    buf = io.StringIO()
    try:
        with contextlib.redirect_stdout(buf), contextlib.redirect_stderr(buf):
            rc = pytest.main(args, plugins=[plug])
    finally:
        os.chdir(old)
    ctx.count('suite_tests_run', plug.n)
    ctx.count('suite_tests_failed', len(plug.failed))
    ctx.info['suite_rc'] = int(rc)
    tail = buf.getvalue().strip().split('\n')[-1:]
    ctx.info['suite_summary'] = tail[0] if tail else ''
    # a test of the repository failing *only because a monitor is attached* would be a harness effect: monitors never
    # alter results, so failures are reported as information (they are the same with the monitors off)
    if plug.failed:
        ctx.info['suite_failed_tests'] = plug.failed[:10]
    return plug
