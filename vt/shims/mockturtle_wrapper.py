"""Stand-in for the C++ mockturtle wrapper (absent in this sandbox).

enumerate_cuts(bench_text, cut_size, cut_limit, fanin_limit) -> {label: [[leaf,...],...]}

Textbook bottom-up k-feasible cut enumeration.  Every returned cut is a genuine
cut of its node by construction.  Policy (module attribute POLICY / env
VT_CUT_POLICY) varies the *family* and *order* supplied, which the property C04
quantifies over:
  faithful        all non-dominated cuts of size <= cut_size, smaller first, trivial cut last
  shuffled        same family, random order per node
  pruned          random sub-family per node (trivial cut always kept)
  inputs_omitted  like faithful but no entries for primary inputs
LAST_FAMILY keeps the last returned family for the monitors.
"""
import os
import random
import re

POLICY = os.environ.get('VT_CUT_POLICY', 'faithful')
SEED = int(os.environ.get('VT_CUT_SEED', '0'))
LAST_FAMILY = None
CALLS = 0
__version__ = 'vt-shim'

_gate_re = re.compile(r'^\s*([^\s=]+)\s*=\s*([A-Za-z_0-9]+)\s*\((.*)\)\s*$')
_io_re = re.compile(r'^\s*(INPUT|OUTPUT)\s*\(\s*([^\s()]+)\s*\)\s*$')


def _parse(text):
    inputs, outputs, gates = [], [], []
    for line in text.splitlines():
        line = line.split('#', 1)[0].strip()
        if not line:
            continue
        m = _io_re.match(line)
        if m and '=' not in line:
            (inputs if m.group(1) == 'INPUT' else outputs).append(m.group(2))
            continue
        m = _gate_re.match(line)
        if not m:
            raise ValueError('mockturtle shim: cannot parse line %r' % line)
        ops = [o.strip() for o in m.group(3).split(',') if o.strip()]
        gates.append((m.group(1), m.group(2).upper(), ops))
    return inputs, outputs, gates


def enumerate_cuts(circuit, cut_size, cut_limit, fanin_limit):
    global LAST_FAMILY, CALLS
    CALLS += 1
    inputs, outputs, gates = _parse(circuit)
    index = {}
    order = []
    for i in inputs:
        if i not in index:
            index[i] = len(index) + 2
            order.append(i)
    pending = list(gates)
    gate_ops = {}
    while pending:
        rest = []
        progressed = False
        for lbl, typ, ops in pending:
            if all(o in index for o in ops):
                index[lbl] = len(index) + 2
                order.append(lbl)
                gate_ops[lbl] = ops
                progressed = True
            else:
                rest.append((lbl, typ, ops))
        pending = rest
        if not progressed:
            # undefined operand or a cycle: the real reader reports failure -> empty result
            LAST_FAMILY = {}
            return {}
    rng = random.Random('%d:%s' % (SEED, circuit))
    cuts = {}
    for lbl in order:
        if lbl not in gate_ops:
            cuts[lbl] = [(lbl,)]
            continue
        fanins = list(dict.fromkeys(gate_ops[lbl]))
        if len(fanins) > fanin_limit or not fanins:
            cuts[lbl] = [(lbl,)]
            continue
        acc = [frozenset()]
        for f in fanins:
            nxt = set()
            for a in acc:
                for c in cuts[f]:
                    u = a | frozenset(c)
                    if len(u) <= cut_size:
                        nxt.add(u)
            acc = list(nxt)
            if not acc:
                break
        # drop dominated cuts
        acc = sorted(set(acc), key=lambda s: (len(s), sorted(index[x] for x in s)))
        keep = []
        for c in acc:
            if not any(k < c for k in keep):
                keep.append(c)
        keep = keep[: max(cut_limit - 1, 0)]
        res = [tuple(sorted(c, key=lambda x: index[x])) for c in keep]
        if POLICY == 'pruned' and res:
            k = rng.randint(0, len(res))
            res = sorted(rng.sample(res, k), key=lambda t: (len(t), [index[x] for x in t]))
        elif POLICY == 'shuffled':
            rng.shuffle(res)
        res.append((lbl,))
        cuts[lbl] = res
    out = {}
    for lbl in order:
        if POLICY == 'inputs_omitted' and lbl not in gate_ops:
            continue
        out[lbl] = [list(c) for c in cuts[lbl]]
    if POLICY == 'shuffled':
        for lbl in out:
            trivial = out[lbl][-1:]
            body = out[lbl][:-1]
            rng.shuffle(body)
            out[lbl] = body + trivial
    LAST_FAMILY = out
    return out
