"""Stand-in for python-sat (absent in this sandbox): CNF/IDPool on plain lists,
Solver backed by z3 with self-checking answers.  See /verif/DESIGN.md 2.4."""
__version__ = 'vt-shim'
