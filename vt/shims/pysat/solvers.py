"""z3-backed Solver with the subset of the python-sat API cirbo uses.

Self-checking: every SAT model is verified against every clause; every UNSAT
answer on a formula with <= 24 variables is re-decided by the independent DPLL
in vt.satref.  A disagreement raises ShimSelfCheckError (never swallowed)."""
import os
import tempfile

STATS = {'solve': 0, 'sat': 0, 'unsat': 0, 'unsat_rechecked': 0, 'max_vars': 0, 'max_clauses': 0, 'cap_hits': 0}
# a single SAT call is capped (the real solver would keep running; the monitored code is handed what it gets when a time
# limit expires, the library's own SolverTimeOutError, so a capped call is a documented "out of time" outcome, counted here)
CAP_MS = int(os.environ.get('VT_SOLVER_CAP_MS', '3000'))


class ShimSelfCheckError(Exception):
    pass


class SolverNames:
    pass


class Solver:
    def __init__(self, name='cadical195', bootstrap_with=None, **_kw):
        self._name = name
        self._clauses = []
        self._nv = 0
        self._model = None
        self._status = None
        if bootstrap_with is not None:
            self.append_formula(bootstrap_with)

    def __enter__(self):
        return self

    def __exit__(self, *a):
        self.delete()
        return False

    def add_clause(self, clause, no_return=True):
        clause = [int(l) for l in clause]
        for l in clause:
            if abs(l) > self._nv:
                self._nv = abs(l)
        self._clauses.append(clause)

    def append_formula(self, formula, no_return=True):
        cl = getattr(formula, 'clauses', formula)
        for c in cl:
            self.add_clause(c)

    def solve(self, assumptions=()):
        import z3
        STATS['solve'] += 1
        clauses = self._clauses + [[int(a)] for a in assumptions]
        nv = self._nv
        for a in assumptions:
            nv = max(nv, abs(int(a)))
        STATS['max_vars'] = max(STATS['max_vars'], nv)
        STATS['max_clauses'] = max(STATS['max_clauses'], len(clauses))
        self._model = None
        if any(len(c) == 0 for c in clauses):
            self._status = False
            STATS['unsat'] += 1
            return False
        if not clauses:
            self._status = True
            self._model = [-(i + 1) for i in range(nv)]
            STATS['sat'] += 1
            return True
        fd, path = tempfile.mkstemp(suffix='.cnf', prefix='vtshim_')
        try:
            with os.fdopen(fd, 'w') as f:
                f.write('p cnf %d %d\n' % (nv, len(clauses)))
                f.write('\n'.join(' '.join(map(str, c)) + ' 0' for c in clauses))
                f.write('\n')
            s = z3.Solver()
            s.set('timeout', CAP_MS)
            s.from_file(path)
        finally:
            try:
                os.unlink(path)
            except OSError:
                pass
        r = s.check()
        if r == z3.sat:
            m = s.model()
            val = {}
            for d in m.decls():
                nm = d.name()
                if nm.startswith('k!'):
                    val[int(nm[2:])] = z3.is_true(m[d])
            model = [(i if val.get(i, False) else -i) for i in range(1, nv + 1)]
            ms = set(model)
            for c in clauses:
                if not any(l in ms for l in c):
                    raise ShimSelfCheckError('z3 model violates clause %r' % (c,))
            self._model = model
            self._status = True
            STATS['sat'] += 1
            return True
        if r == z3.unsat:
            if nv <= 24:
                from vt import satref
                if satref.solve(clauses) is not None:
                    raise ShimSelfCheckError('z3 says unsat, DPLL found a model')
                STATS['unsat_rechecked'] += 1
            self._status = False
            STATS['unsat'] += 1
            return False
        reason = s.reason_unknown()
        if 'timeout' in reason or 'canceled' in reason or 'cancelled' in reason:
            STATS['cap_hits'] += 1
            self._status = None
            from cirbo.synthesis.exception import SolverTimeOutError
            raise SolverTimeOutError()
        raise ShimSelfCheckError('z3 returned unknown: %s' % reason)

    def get_model(self):
        if self._status:
            return list(self._model)
        return None

    def get_status(self):
        return self._status

    def delete(self):
        self._clauses = []
        self._model = None
