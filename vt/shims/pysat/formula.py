class CNF:
    def __init__(self, from_clauses=None, **_kw):
        self.clauses = []
        self.nv = 0
        if from_clauses is not None:
            self.from_clauses(from_clauses)

    def from_clauses(self, clauses):
        self.clauses = [list(c) for c in clauses]
        self.nv = 0
        for c in self.clauses:
            for l in c:
                if abs(l) > self.nv:
                    self.nv = abs(l)

    def append(self, clause):
        clause = list(clause)
        for l in clause:
            if abs(l) > self.nv:
                self.nv = abs(l)
        self.clauses.append(clause)

    def extend(self, clauses):
        for c in clauses:
            self.append(c)

    def __iter__(self):
        return iter(self.clauses)

    def __len__(self):
        return len(self.clauses)


class IDPool:
    def __init__(self, start_from=1, occupied=()):
        self.top = start_from - 1
        self.obj2id = {}
        self.id2obj = {}

    def id(self, obj=None):
        if obj is None:
            self.top += 1
            return self.top
        v = self.obj2id.get(obj)
        if v is None:
            self.top += 1
            v = self.top
            self.obj2id[obj] = v
            self.id2obj[v] = obj
        return v

    def obj(self, vid):
        return self.id2obj.get(vid)
