"""Known-findings matching.  /verif/known_findings.json is committed and never
written at run time."""
import json
import os

HERE = os.path.dirname(os.path.dirname(os.path.abspath(__file__)))
PATH = os.path.join(HERE, 'known_findings.json')


def load():
    try:
        return json.load(open(PATH))
    except FileNotFoundError:
        return {'open': [], 'fixed': []}


def match(prop, signature, findings=None):
    """Return the open finding entry matching this violation signature, or None.
    An entry matches when property is equal and each of its `match` keys
    (api / kind / discriminator) equals the signature's value (discriminator may be
    a list of admissible values)."""
    findings = findings or load()
    for f in findings.get('open', []):
        if f.get('property') != prop:
            continue
        ok = True
        for k, v in f.get('match', {}).items():
            sv = signature.get(k)
            if isinstance(v, list):
                if sv not in v:
                    ok = False
            elif sv != v:
                ok = False
        if ok:
            return f
    return None
