"""Per-shard recording context handed to property modules."""
from __future__ import annotations

import hashlib
import json
import os
import random
import time
import traceback


def h64(s: str) -> str:
    return hashlib.blake2b(s.encode('utf-8', 'replace'), digest_size=8).hexdigest()


class Ctx:
    MAX_SAMPLES = 4
    MAX_VIOL_PER_SIG = 2

    def __init__(self, prop, spec):
        self.prop = prop
        self.spec = spec
        self.tier = spec.get('tier', 'quick')
        self.seed = spec.get('seed', 0)
        self.shard = spec.get('shard', 0)
        self.rng = random.Random('%s:%s:%s' % (prop, self.seed, self.shard))
        self.t0 = time.time()
        self.budget = spec.get('budget_s', 60.0)
        self.evaluations = 0
        self.nontrivial = set()
        self.samples = []
        self.classes = {}
        self.monitors = {}
        self.violations = []
        self._viol_count = {}
        self.inconclusive = []
        self.info = {}
        self.exhaustive_spaces = {}

    # ---- time
    def time_left(self):
        return self.budget - (time.time() - self.t0)

    def out_of_time(self):
        return self.time_left() <= 0

    # ---- recording
    def case(self, key, nontrivial, sample=None, cls=None):
        """One monitor evaluation on one case.  key: canonical string identifying
        the case for distinctness."""
        self.evaluations += 1
        if nontrivial:
            self.nontrivial.add(h64(key))
            if sample is not None and len(self.samples) < self.MAX_SAMPLES:
                try:
                    big = len(json.dumps(sample, default=str)) > 20000
                except Exception:
                    big = False
                if not big:   # very large cases (deep chains, big files) are summarised by their class counters instead
                    self.samples.append(sample)
        if cls is not None:
            self.count(cls)

    def evals(self, k=1):
        self.evaluations += k

    def count(self, name, k=1):
        self.classes[name] = self.classes.get(name, 0) + k

    def mon(self, name, field='checked', k=1):
        d = self.monitors.setdefault(name, {})
        d[field] = d.get(field, 0) + k

    def moncounter(self, name):
        return self.monitors.setdefault(name, {})

    def violation(self, api, kind, discriminator, message, replay, extra=None):
        """kind: 'exception' | 'wrong_result' | 'invariant'.  discriminator: the
        mechanism-level signature (never a case hash)."""
        sig = {'api': api, 'kind': kind, 'discriminator': discriminator}
        k = json.dumps(sig, sort_keys=True)
        n = self._viol_count.get(k, 0)
        self._viol_count[k] = n + 1
        if n < self.MAX_VIOL_PER_SIG:
            # the hash seed of this interpreter is part of what replays the execution (set / str-keyed dict order)
            extra = dict(extra) if isinstance(extra, dict) else ({} if extra is None else {'value': extra})
            extra.setdefault('hashseed', os.environ.get('PYTHONHASHSEED', '0'))
            extra.setdefault('debug_logging', bool(self.spec.get('debug_logging')))
            self.violations.append({'signature': sig, 'message': str(message)[:2000], 'replay': replay,
                                    'extra': extra})

    def unexpected(self, api, exc, replay):
        """An exception escaped a driven call.  Attributed to cirbo (violation) only when the
        innermost relevant frame is cirbo code; an exception raised by harness / oracle /
        shim code is harness trouble: inconclusive, never a verdict."""
        tb = traceback.extract_tb(exc.__traceback__)
        where = ''
        origin = None
        for fr in reversed(tb):
            fn = fr.filename.replace('\\', '/')
            if '/cirbo/' in fn and '/vt/' not in fn:
                origin = 'cirbo'
                where = '%s:%s' % (fn.split('/cirbo/', 1)[1], fr.name)
                break
            if '/vt/' in fn:
                origin = 'harness'
                where = '%s:%s:%d' % (fn.split('/vt/', 1)[1], fr.name, fr.lineno)
                break
        if origin != 'cirbo':
            self.count('harness_exception:%s@%s' % (type(exc).__name__, where))
            self.note_inconclusive('harness exception %s: %s at %s' % (type(exc).__name__, str(exc)[:200], where))
            return
        self.violation(api, 'exception', '%s@%s' % (type(exc).__name__, where),
                       '%s: %s' % (type(exc).__name__, exc), replay,
                       extra={'traceback': ''.join(traceback.format_exception(exc))[-3000:]})

    def note_inconclusive(self, reason):
        if reason not in self.inconclusive:
            self.inconclusive.append(reason)

    def dump(self):
        return {
            'evaluations': self.evaluations,
            'nontrivial': sorted(self.nontrivial),
            'samples': self.samples,
            'classes': self.classes,
            'monitors': self.monitors,
            'violations': self.violations,
            'violation_counts': self._viol_count,
            'inconclusive': self.inconclusive,
            'info': self.info,
            'exhaustive_spaces': self.exhaustive_spaces,
            'wall_s': time.time() - self.t0,
        }
