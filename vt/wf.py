"""Well-formedness oracle (property C02): recomputes everything from the operand
relation and compares with what the public API reports."""
from __future__ import annotations

import collections
import copy


def deep_snapshot(c):
    """Value snapshot of every piece of state (no shared mutables)."""
    return {
        'inputs': list(c.inputs),
        'outputs': list(c.outputs),
        'gates': [(l, g.gate_type.name, tuple(g.operands)) for l, g in c.gates.items()],
        'users': {l: sorted(c.get_gate_users(l)) for l in c.gates if c.get_gate_users(l)},
        'blocks': {n: (list(b.inputs), list(b.gates), list(b.outputs)) for n, b in c.blocks.items()},
    }


def snapshot_equal_modulo_order(a, b):
    return (a['inputs'] == b['inputs'] and a['outputs'] == b['outputs']
            and dict((x[0], x[1:]) for x in a['gates']) == dict((x[0], x[1:]) for x in b['gates'])
            and a['users'] == b['users'] and a['blocks'] == b['blocks'])


def has_cycle(gates: dict) -> bool:
    """gates: label -> operands (iterable).  Iterative 3-colour DFS."""
    color = {}
    for s in gates:
        if color.get(s):
            continue
        stack = [(s, iter(gates[s]))]
        color[s] = 1
        while stack:
            g, it = stack[-1]
            adv = False
            for o in it:
                if o not in gates:
                    continue
                c = color.get(o, 0)
                if c == 1:
                    return True
                if c == 0:
                    color[o] = 1
                    stack.append((o, iter(gates[o])))
                    adv = True
                    break
            if not adv:
                color[g] = 2
                stack.pop()
    return False


def errors(c, *, check_copy=True, check_topsort=True, limit=6):
    """Return a list of human-readable well-formedness violations (empty = OK)."""
    errs = []
    gates = c.gates
    ops = {l: tuple(g.operands) for l, g in gates.items()}
    # labels consistent
    for l, g in gates.items():
        if g.label != l:
            errs.append('gate stored under %r has label %r' % (l, g.label))
    # operands / outputs exist
    for l, o in ops.items():
        for x in o:
            if x not in gates:
                errs.append('operand %r of %r does not exist' % (x, l))
    for o in c.outputs:
        if o not in gates:
            errs.append('output %r does not exist' % (o,))
    if errs:
        return errs[:limit]
    # users multiset
    want = collections.defaultdict(list)
    for l, o in ops.items():
        for x in o:
            want[x].append(l)
    for l in gates:
        got = sorted(c.get_gate_users(l))
        if got != sorted(want.get(l, [])):
            errs.append('users(%r) reported %r, operand relation gives %r' % (l, got, sorted(want.get(l, []))))
            if len(errs) >= limit:
                return errs
    for l, u in getattr(c, '_gate_to_users', {}).items():
        if l not in gates and u:
            errs.append('users entry %r -> %r for a missing gate' % (l, u))
    # inputs == INPUT gates each once
    in_gates = [l for l, g in gates.items() if g.gate_type.name == 'INPUT']
    if sorted(c.inputs) != sorted(in_gates):
        errs.append('inputs list %r != INPUT gates %r' % (list(c.inputs), in_gates))
    if errs:
        return errs[:limit]
    # acyclic
    if has_cycle(ops):
        errs.append('operand relation has a cycle')
        return errs
    # top sort both directions
    if check_topsort:
        for inv in (False, True):
            try:
                seq = [g.label for g in c.top_sort(inverse=inv)]
            except Exception as e:  # noqa
                errs.append('top_sort(inverse=%s) raised %s: %s' % (inv, type(e).__name__, e))
                continue
            if sorted(seq) != sorted(gates):
                errs.append('top_sort(inverse=%s) yielded %d gates (%d distinct) of %d' % (
                    inv, len(seq), len(set(seq)), len(gates)))
                continue
            pos = {l: i for i, l in enumerate(seq)}
            for l, o in ops.items():
                for x in o:
                    if inv and not pos[x] < pos[l]:
                        errs.append('top_sort(inverse=True): %r before its operand %r' % (l, x))
                    if not inv and not pos[x] > pos[l]:
                        errs.append('top_sort(inverse=False): operand %r before its user %r' % (x, l))
                    if len(errs) >= limit:
                        return errs
    # blocks: member and input labels exist
    for n, b in c.blocks.items():
        for x in b.gates:
            if x not in gates:
                errs.append('block %r member %r does not exist' % (n, x))
        for x in b.inputs:
            if x not in gates:
                errs.append('block %r input %r does not exist' % (n, x))
    if errs:
        return errs[:limit]
    if check_copy:
        errs.extend(copy_errors(c))
    return errs[:limit]


def copy_errors(c):
    errs = []
    before = deep_snapshot(c)
    try:
        k = copy.copy(c)
    except Exception as e:  # noqa
        return ['copy.copy raised %s: %s' % (type(e).__name__, e)]
    if not (k == c):
        errs.append('copy != original')
    if k.inputs != c.inputs or k.outputs != c.outputs or dict(k.gates) != dict(c.gates):
        errs.append('copy differs from original in inputs/outputs/gates')
    if sorted(k.blocks) != sorted(c.blocks):
        errs.append('copy has blocks %r, original %r' % (sorted(k.blocks), sorted(c.blocks)))
    else:
        for n in c.blocks:
            a, b = c.blocks[n], k.blocks[n]
            if (a.inputs, a.gates, a.outputs) != (b.inputs, b.gates, b.outputs):
                errs.append('copy block %r differs' % (n,))
            if a is b or a.gates is b.gates or a.inputs is b.inputs or a.outputs is b.outputs:
                errs.append('copy shares block %r state with original' % (n,))
            if b.circuit_owner is not k:
                errs.append('copy block %r is owned by another circuit' % (n,))
    if k.inputs is c.inputs or k.outputs is c.outputs or k.gates is c.gates or k.blocks is c.blocks:
        errs.append('copy shares a top-level container with original')
    for l in k.gates:
        if l in c.gates and k.get_gate_users(l) and k.get_gate_users(l) is c.get_gate_users(l):
            errs.append('copy shares users list of %r' % (l,))
            break
    # mutate the copy through public calls; original must not move
    try:
        fresh = '__vt_probe__'
        while k.has_gate(fresh):
            fresh += '_'
        k.emplace_gate(fresh, _input_type(k))
        if k.size > 1:
            first = next(iter(k.gates))
            k.mark_as_output(first)
        for n in list(k.blocks):
            b = k.blocks[n]
            b.gates.append(fresh)
            b.inputs.append(fresh)
            b.outputs.append(fresh)
        if k.inputs:
            k.set_inputs(list(reversed(k.inputs)))
        if c.size:
            lbl = next(iter(c.gates))
            k.rename_gate(lbl, '__vt_ren__' + lbl)
    except Exception as e:  # noqa
        errs.append('mutating the copy raised %s: %s' % (type(e).__name__, e))
    after = deep_snapshot(c)
    if after != before:
        errs.append('mutating the copy changed the original')
    return errs


def _input_type(c):
    from cirbo.core.circuit import gate
    return gate.INPUT
