"""Independent reference semantics for gate networks.

Written from the property text (C01), imports nothing from cirbo.  A netlist is
    Net(inputs=[label], outputs=[label], gates={label: (type_name, (operand,...))})
with INPUT gates present in `gates` as ('INPUT', ()).

Bit-parallel form: a value is an int whose bit k is the value under sample k;
`mask` has the low `nsamples` bits set.
"""
from __future__ import annotations

import itertools
import random
from dataclasses import dataclass, field

TYPES = ['INPUT', 'ALWAYS_TRUE', 'ALWAYS_FALSE', 'AND', 'GEQ', 'GT', 'IFF', 'LEQ', 'LIFF', 'LNOT',
         'LT', 'NAND', 'NOR', 'NOT', 'NXOR', 'OR', 'RIFF', 'RNOT', 'XOR']
NARY = ['AND', 'OR', 'XOR', 'NAND', 'NOR', 'NXOR']
BINARY_ONLY = ['GT', 'LT', 'GEQ', 'LEQ', 'LIFF', 'RIFF', 'LNOT', 'RNOT']
UNARY = ['NOT', 'IFF']
CONST = ['ALWAYS_TRUE', 'ALWAYS_FALSE']
SYMMETRIC = {'AND', 'OR', 'XOR', 'NAND', 'NOR', 'NXOR', 'NOT', 'IFF', 'ALWAYS_TRUE', 'ALWAYS_FALSE', 'INPUT'}


def op(tname: str, vals, mask: int) -> int:
    """Bit-parallel gate function.  vals: sequence of ints."""
    if tname == 'AND' or tname == 'NAND':
        r = mask
        for v in vals:
            r &= v
        return r if tname == 'AND' else (~r & mask)
    if tname == 'OR' or tname == 'NOR':
        r = 0
        for v in vals:
            r |= v
        return r if tname == 'OR' else (~r & mask)
    if tname == 'XOR' or tname == 'NXOR':
        r = 0
        for v in vals:
            r ^= v
        return r if tname == 'XOR' else (~r & mask)
    if tname == 'NOT':
        return ~vals[0] & mask
    if tname == 'IFF':
        return vals[0] & mask
    if tname == 'GT':
        return vals[0] & ~vals[1] & mask
    if tname == 'LT':
        return ~vals[0] & vals[1] & mask
    if tname == 'GEQ':
        return (vals[0] | ~vals[1]) & mask
    if tname == 'LEQ':
        return (~vals[0] | vals[1]) & mask
    if tname == 'LIFF':
        return vals[0] & mask
    if tname == 'RIFF':
        return vals[1] & mask
    if tname == 'LNOT':
        return ~vals[0] & mask
    if tname == 'RNOT':
        return ~vals[1] & mask
    if tname == 'ALWAYS_TRUE':
        return mask
    if tname == 'ALWAYS_FALSE':
        return 0
    raise KeyError(tname)


def op_scalar(tname: str, vals) -> bool:
    return bool(op(tname, [1 if v else 0 for v in vals], 1))


@dataclass
class Net:
    inputs: list
    outputs: list
    gates: dict  # label -> (type_name, tuple(operands))

    def copy(self):
        return Net(list(self.inputs), list(self.outputs), dict(self.gates))


def net_of(circuit) -> Net:
    """Snapshot a cirbo Circuit through its public gate map only (operand relation)."""
    gates = {}
    for lbl, g in circuit.gates.items():
        gates[lbl] = (g.gate_type.name, tuple(g.operands))
    return Net(list(circuit.inputs), list(circuit.outputs), gates)


def canonical_columns(n: int):
    """Bit-parallel input columns for all 2^n assignments in canonical (big-endian)
    order: sample k has input i = bit (n-1-i) of k."""
    cols = []
    for i in range(n):
        v = 0
        for k in range(1 << n):
            if (k >> (n - 1 - i)) & 1:
                v |= 1 << k
        cols.append(v)
    return cols, (1 << (1 << n)) - 1, 1 << n


def eval_net(net: Net, in_vals: dict, mask: int, *, wanted=None, overrides=None) -> dict:
    """Memoised evaluation over the operand relation only.  in_vals: label->int for
    INPUT gates.  Returns label->int for every gate reachable from `wanted`
    (default: all gates).  Iterative to survive deep chains."""
    val = {}
    if overrides:
        val.update(overrides)
    gates = net.gates
    targets = list(gates) if wanted is None else list(wanted)
    inprog = set()
    for t in targets:
        if t in val:
            continue
        stack = [t]
        while stack:
            g = stack[-1]
            if g in val:
                stack.pop()
                continue
            tname, ops = gates[g]
            if tname == 'INPUT':
                val[g] = in_vals[g]
                stack.pop()
                continue
            missing = [o for o in ops if o not in val]
            if missing:
                if g in inprog:
                    raise RecursionError('cycle in netlist')
                inprog.add(g)
                stack.extend(missing)
                continue
            val[g] = op(tname, [val[o] for o in ops], mask)
            inprog.discard(g)
            stack.pop()
    return val


def truth_tables(net: Net, *, wanted=None):
    """All-assignments evaluation.  Returns (vals, nsamples): bit k of vals[label] is
    the value under canonical assignment k."""
    cols, mask, ns = canonical_columns(len(net.inputs))
    in_vals = {lbl: cols[i] for i, lbl in enumerate(net.inputs)}
    # INPUT-typed gates not in the inputs list (malformed) -> treat as 0
    for lbl, (t, _) in net.gates.items():
        if t == 'INPUT' and lbl not in in_vals:
            in_vals[lbl] = 0
    return eval_net(net, in_vals, mask, wanted=wanted), ns


def output_table(net: Net):
    """List (per output, in order) of lists of bool in canonical order."""
    vals, ns = truth_tables(net, wanted=list(net.outputs))
    return [[bool((vals[o] >> k) & 1) for k in range(ns)] for o in net.outputs]


def output_ints(net: Net):
    vals, ns = truth_tables(net, wanted=list(net.outputs))
    return [vals[o] for o in net.outputs], ns


def eval_scalar(net: Net, assignment: dict) -> dict:
    """Scalar evaluation (bools), separate code path from the bit-parallel one
    only in the packing; used to cross-check."""
    in_vals = {k: (1 if v else 0) for k, v in assignment.items()}
    r = eval_net(net, in_vals, 1)
    return {k: bool(v) for k, v in r.items()}


def sample_columns(width_groups, nsamples, rng: random.Random, corner=True):
    """Build bit-parallel columns for operands given as groups of bit-widths.
    width_groups: list of ints (width of each integer operand).  Returns
    (list of list-of-columns per operand (LSB first), list of operand values per sample, mask, ns).
    Samples: corners (0, all ones, 2^k, 2^k-1, walking) then random."""
    samples = []
    corners_per = []
    for w in width_groups:
        c = {0, (1 << w) - 1}
        for k in range(w):
            c.add(1 << k)
            c.add((1 << k) - 1)
            c.add(((1 << w) - 1) ^ (1 << k))
        corners_per.append(sorted(c))
    if corner:
        prod_size = 1
        for c in corners_per:
            prod_size *= len(c)
        if prod_size <= nsamples // 2:
            for combo in itertools.product(*corners_per):
                samples.append(tuple(combo))
        else:
            for _ in range(nsamples // 2):
                samples.append(tuple(rng.choice(c) for c in corners_per))
    while len(samples) < nsamples:
        samples.append(tuple(rng.getrandbits(w) if w else 0 for w in width_groups))
    samples = samples[:nsamples]
    ns = len(samples)
    cols = []
    for gi, w in enumerate(width_groups):
        gcols = []
        for b in range(w):
            v = 0
            for k, s in enumerate(samples):
                if (s[gi] >> b) & 1:
                    v |= 1 << k
            gcols.append(v)
        cols.append(gcols)
    return cols, samples, (1 << ns) - 1, ns


def fmt_tt(x) -> str:
    """Printable form of (lists of) truth-table integers of any width (decimal conversion of very wide ints is refused
    by the interpreter)."""
    if isinstance(x, (list, tuple)):
        return '[' + ', '.join(fmt_tt(v) for v in x) + ']'
    h = hex(x)
    return h if len(h) <= 70 else '%s...%s(%d hex digits)' % (h[:40], h[-16:], len(h) - 2)


def structural_hash(net: Net) -> str:
    """Relabel-invariant hash of the netlist (interface order + DAG structure).
    Operand order kept for asymmetric types, sorted for symmetric ones."""
    import hashlib
    memo = {}
    inpos = {l: i for i, l in enumerate(net.inputs)}

    def h(lbl):
        stack = [lbl]
        while stack:
            g = stack[-1]
            if g in memo:
                stack.pop()
                continue
            t, ops = net.gates[g]
            if t == 'INPUT':
                memo[g] = 'i%d' % inpos.get(g, -1)
                stack.pop()
                continue
            miss = [o for o in ops if o not in memo]
            if miss:
                stack.extend(miss)
                continue
            hs = [memo[o] for o in ops]
            if t in SYMMETRIC:
                hs = sorted(hs)
            memo[g] = hashlib.blake2b((t + '(' + ','.join(hs) + ')').encode(), digest_size=8).hexdigest()
            stack.pop()
        return memo[lbl]

    parts = ['n%d' % len(net.inputs)]
    parts += ['o' + h(o) for o in net.outputs]
    # dead logic counts too: multiset of all gate hashes
    parts += sorted(h(g) for g in net.gates)
    return hashlib.blake2b('|'.join(parts).encode(), digest_size=8).hexdigest()


def to_bench(net: Net) -> str:
    lines = ['INPUT(%s)' % i for i in net.inputs]
    for l, (t, ops) in net.gates.items():
        if t == 'INPUT':
            continue
        nm = 'BUFF' if t == 'IFF' else t
        lines.append('%s = %s(%s)' % (l, nm, ', '.join(ops)))
    lines += ['OUTPUT(%s)' % o for o in net.outputs]
    return '\n'.join(lines)
