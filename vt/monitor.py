"""Monitor attachment: wrappers on the real cirbo functions, outermost-boundary
tracking, seeded uuid, sys.monitoring based code-reach recording."""
from __future__ import annotations

import functools
import os
import random
import sys
import uuid

REPO = os.environ.get('VT_REPO', '/repo')

_depth = 0          # nesting depth of monitored public calls (single-threaded)
_installed = []     # (owner, name, original)


def outermost() -> bool:
    return _depth == 1


ERRORS = []  # failures of monitor code itself (reported as INCONCLUSIVE by the worker)


def _monitor_error(name, phase, exc):
    import traceback
    if len(ERRORS) < 20:
        ERRORS.append('monitor %s.%s raised %s: %s' % (name, phase, type(exc).__name__,
                                                       ''.join(traceback.format_exception(exc))[-700:]))


def attach(owner, name, *, pre=None, post=None, on_raise=None, static=False, counter=None):
    """Wrap owner.name.  pre(args, kwargs) -> state (called only at the outermost
    boundary if `pre` has attribute outer_only=True, see `boundary`).  post(state,
    args, kwargs, result).  The wrapper never alters arguments or results and
    re-raises the original exception unchanged."""
    raw = owner.__dict__[name] if isinstance(owner, type) else getattr(owner, name)
    is_static = isinstance(raw, staticmethod)
    is_class = isinstance(raw, classmethod)
    fn = raw.__func__ if (is_static or is_class) else raw

    @functools.wraps(fn)
    def wrapper(*args, **kwargs):
        global _depth
        _depth += 1
        outer = _depth == 1
        try:
            if counter is not None:
                counter['calls'] = counter.get('calls', 0) + 1
            state = None
            pre_ok = True
            if pre is not None and (outer or not getattr(pre, 'outer_only', False)):
                try:
                    state = pre(args, kwargs)
                except Exception as me:  # the monitor's own failure must neither leak into the program nor pass as "held"
                    _monitor_error(name, 'pre', me)
                    pre_ok = False
            try:
                result = fn(*args, **kwargs)
            except BaseException as e:
                if on_raise is not None and outer and pre_ok:
                    try:
                        on_raise(state, args, kwargs, e)
                    except Exception as me:
                        _monitor_error(name, 'on_raise', me)
                raise
            if post is not None and pre_ok and (outer or not getattr(post, 'outer_only', False)):
                try:
                    post(state, args, kwargs, result)
                except Exception as me:
                    _monitor_error(name, 'post', me)
            return result
        finally:
            _depth -= 1

    wrapper.__vt_original__ = fn
    new = staticmethod(wrapper) if is_static else (classmethod(wrapper) if is_class else wrapper)
    setattr(owner, name, new)
    _installed.append((owner, name, raw))
    return wrapper


def outer_only(f):
    f.outer_only = True
    return f


def detach_all():
    while _installed:
        owner, name, raw = _installed.pop()
        setattr(owner, name, raw)


class suspended:
    """Context manager: run oracle code (which may call monitored functions)
    without it counting as a boundary."""

    def __enter__(self):
        global _depth
        self._saved = _depth
        _depth += 1000
        return self

    def __exit__(self, *a):
        global _depth
        _depth = self._saved
        return False


# ---------------------------------------------------------------- seeded uuid

class _SeededUUID:
    def __init__(self, seed):
        self.rng = random.Random('uuid:%s' % (seed,))

    def __call__(self):
        return uuid.UUID(int=self.rng.getrandbits(128), version=4)


_orig_uuid4 = uuid.uuid4


def seed_uuid(seed):
    uuid.uuid4 = _SeededUUID(seed)


def unseed_uuid():
    uuid.uuid4 = _orig_uuid4


# ---------------------------------------------------------------- code reach

class Reach:
    """Record which functions were entered and which lines executed in the given
    files (paths relative to the repo root), using sys.monitoring with DISABLE
    after the first hit so the steady-state cost is ~nil."""

    TOOL = 3  # sys.monitoring.PROFILER_ID + 1 region; any free id 0..5

    def __init__(self, rel_files):
        self.files = {os.path.join(REPO, f): f for f in rel_files}
        self.lines = {f: set() for f in rel_files}
        self.funcs = {f: {} for f in rel_files}
        self.active = False

    def start(self):
        mon = sys.monitoring
        try:
            mon.use_tool_id(self.TOOL, 'vt-reach')
        except ValueError:
            return
        E = mon.events
        files = self.files

        def on_start(code, offset):
            f = files.get(code.co_filename)
            if f is None:
                return mon.DISABLE
            d = self.funcs[f]
            d[code.co_qualname] = d.get(code.co_qualname, 0) + 1
            return None  # keep counting calls

        def on_line(code, line):
            f = files.get(code.co_filename)
            if f is not None:
                self.lines[f].add(line)
            return mon.DISABLE

        mon.register_callback(self.TOOL, E.PY_START, on_start)
        mon.register_callback(self.TOOL, E.LINE, on_line)
        mon.set_events(self.TOOL, E.PY_START | E.LINE)
        self.active = True

    def stop(self):
        if not self.active:
            return
        mon = sys.monitoring
        mon.set_events(self.TOOL, 0)
        mon.register_callback(self.TOOL, mon.events.PY_START, None)
        mon.register_callback(self.TOOL, mon.events.LINE, None)
        mon.free_tool_id(self.TOOL)
        self.active = False

    def result(self):
        return {f: {'lines': sorted(self.lines[f]), 'functions': self.funcs[f]} for f in self.lines}


def executable_lines(path):
    """Set of line numbers that carry code in the file (from compiled code objects)."""
    try:
        src = open(path).read()
        code = compile(src, path, 'exec')
    except Exception:
        return set()
    out = set()
    stack = [code]
    while stack:
        c = stack.pop()
        for _, _, ln in c.co_lines():
            if ln is not None:
                out.add(ln)
        for k in c.co_consts:
            if hasattr(k, 'co_lines'):
                stack.append(k)
    return out
