"""Seeded generators of reference netlists (vt.refsem.Net) and builders that turn
them into real cirbo circuits through the public API."""
from __future__ import annotations

import random

from vt.refsem import BINARY_ONLY, CONST, NARY, Net, UNARY

SHAPES = ['random', 'chain', 'wide', 'diamond', 'unary', 'dups', 'consts', 'nary']
LABEL_STYLES = ['plain', 'digits', 'keyword', 'at', 'brackets', 'mixed', 'derived']

ALL_GATE_TYPES = NARY + BINARY_ONLY + UNARY + CONST
SUPPORTED_MIN = ['NOT', 'AND', 'OR', 'XOR', 'NAND', 'NOR', 'NXOR', 'GT', 'LT', 'GEQ', 'LEQ']

_KW = ['input', 'output', 'INPUT', 'OUTPUT', 'Input_', 'Output', 'inputs', 'vdd', 'VDD', 'buff', 'BUFF', 'not',
       'AND', 'gnd', 'OUTPUTx', 'INPUTS']


def make_labels(rng, style, n_in, n_g):
    """Return (input_labels, gate_labels) - distinct bench identifiers."""
    if style == 'mixed':
        style = rng.choice(['plain', 'digits', 'keyword', 'brackets', 'at'])
    ins, gs = [], []
    used = set()

    def fresh(base):
        l = base
        k = 0
        while l in used:
            k += 1
            l = '%s_%d' % (base, k)
        used.add(l)
        return l

    if style == 'odd':
        # any str is a label for the in-memory API: falsy / blank / look-alike / punctuation / non-ASCII ones included
        pool = ['', ' ', '0', '1', 'None', 'False', 'True', '\t', 'a b', '#', '=', '(', ')', ',', '-1', 'é', '\ufeff', 'x0', 'g0',
                '0.0', '\n', 'INPUT', 'OUTPUT', 'AND', 'NOT', 'XOR', 'BUFF', 'ALWAYS_TRUE', ' x1', 'g1 ', 'x2\t']
        rng.shuffle(pool)
        for i in range(n_in + n_g):
            l = fresh(pool[i]) if i < len(pool) and rng.random() < 0.6 else fresh(('x%d' if i < n_in else 'g%d') % i)
            (ins if i < n_in else gs).append(l)
        return ins, gs
    for i in range(n_in):
        if style == 'derived':
            ins.append(fresh('p%d' % i))
            continue
        if style == 'plain':
            ins.append(fresh('x%d' % i))
        elif style == 'digits':
            ins.append(fresh(str(i)))
        elif style == 'keyword':
            ins.append(fresh(rng.choice(_KW) + rng.choice(['', '_', '1', 'A']) + str(i)))
        elif style == 'at':
            ins.append(fresh('blk@x%d' % i))
        else:
            ins.append(fresh('x[%d]' % i if rng.random() < 0.5 else 'x.%d' % i))
    for i in range(n_g):
        if style == 'derived':
            # labels built from other labels the way helper names are usually generated: <label>_<k>, <label>@..., not_<label>
            base = rng.choice(ins + gs) if (ins + gs) and rng.random() < 0.7 else 'p%d' % i
            form = rng.choice(['%s_%d', '%s_%d', 'not_%s', '%s@%d', 'new_%s', '%s.%d'])
            gs.append(fresh(form % ((base, rng.choice([2, 3, 8, 9, 10, 12, 16])) if form.count('%') == 2 else (base,))))
            continue
        if style == 'plain':
            gs.append(fresh('g%d' % i))
        elif style == 'digits':
            gs.append(fresh(str(n_in + i)))
        elif style == 'keyword':
            gs.append(fresh(rng.choice(_KW) + rng.choice(['', '_', '2', 'z']) + str(i)))
        elif style == 'at':
            gs.append(fresh('blk@g%d' % i))
        else:
            gs.append(fresh(rng.choice(['n[%d]', 'w.%d', 'N_%d.a', 's%d']) % i))
    return ins, gs


def rand_net(rng: random.Random, *, n_in=None, n_g=None, shape=None, types=None, max_arity=4, label_style='plain',
             n_out=None, allow_input_outputs=True, allow_repeat_outputs=True, p_repeat_operand=None,
             const_operands=True, min_in=1, max_in=5, max_g=12, p_wide=0.0,
             wide_choices=(8, 9, 10, 11, 12)) -> Net:
    shape = shape or rng.choice(SHAPES)
    n_in = n_in if n_in is not None else rng.randint(min_in, max_in)
    n_g = n_g if n_g is not None else rng.randint(0 if rng.random() < 0.05 else 1, max_g)
    pool = list(types) if types else list(ALL_GATE_TYPES)
    if shape == 'unary':
        un = [t for t in pool if t in ('NOT', 'IFF', 'LNOT', 'RNOT', 'LIFF', 'RIFF')]
        weights = [(6 if t in un else 1) for t in pool]
    elif shape == 'consts':
        weights = [(5 if t in CONST else 1) for t in pool]
    elif shape == 'nary':
        weights = [(5 if t in NARY else 1) for t in pool]
        max_arity = max(max_arity, 5)
    else:
        weights = [1] * len(pool)
    if p_repeat_operand is None:
        p_repeat_operand = 0.3 if shape == 'dups' else 0.08
    ins, gls = make_labels(rng, label_style, n_in, n_g)
    gates = {l: ('INPUT', ()) for l in ins}
    avail = list(ins)
    made = []
    for gi in range(n_g):
        lbl = gls[gi]
        if not avail:
            cands = [t for t in pool if t in CONST]
            if not cands:
                break
            t = rng.choice(cands)
            gates[lbl] = (t, ())
            avail.append(lbl)
            made.append(lbl)
            continue
        if shape == 'dups' and made and rng.random() < 0.35:
            # literal duplicate of an earlier gate, maybe with permuted operands
            t, ops = gates[rng.choice(made)]
            ops = list(ops)
            if rng.random() < 0.5:
                rng.shuffle(ops)
            gates[lbl] = (t, tuple(ops))
            avail.append(lbl)
            made.append(lbl)
            continue
        t = rng.choices(pool, weights)[0]

        def pick():
            if shape == 'chain':
                return avail[-1] if rng.random() < 0.7 else rng.choice(avail)
            if shape == 'wide':
                return rng.choice(avail[:max(n_in, 1)]) if rng.random() < 0.7 else rng.choice(avail)
            if shape == 'diamond':
                k = max(1, len(avail) // 3)
                return rng.choice(avail[-k:]) if rng.random() < 0.6 else rng.choice(avail)
            return rng.choice(avail)

        if t in CONST:
            if const_operands and rng.random() < 0.4:
                k = rng.choice([1, 2, 2, 3])
                ops = tuple(pick() for _ in range(k))
            else:
                ops = ()
        elif t in UNARY:
            ops = (pick(),)
        elif t in BINARY_ONLY:
            a = pick()
            b = a if rng.random() < p_repeat_operand else pick()
            ops = (a, b)
        else:
            k = rng.randint(2, max_arity) if rng.random() < (0.6 if shape == 'nary' else 0.25) else 2
            if p_wide and rng.random() < p_wide:
                k = rng.choice(list(wide_choices))   # sizes beyond the usual small-test range
            ops = []
            for _ in range(k):
                if ops and rng.random() < p_repeat_operand:
                    ops.append(rng.choice(ops))
                else:
                    ops.append(pick())
            ops = tuple(ops)
        gates[lbl] = (t, ops)
        avail.append(lbl)
        made.append(lbl)
    # outputs
    cand = made if (made and not (allow_input_outputs and rng.random() < 0.25)) else list(gates)
    if n_out is None:
        r = rng.random()
        n_out = 0 if r < 0.03 else (1 if r < 0.45 else rng.randint(2, 4))
    outs = []
    for _ in range(n_out):
        if outs and allow_repeat_outputs and rng.random() < 0.1:
            outs.append(rng.choice(outs))
        elif allow_input_outputs and gates and rng.random() < 0.1:
            outs.append(rng.choice(list(gates)))
        elif cand:
            # bias to late gates so that logic is live
            k = max(1, len(cand) // 2)
            outs.append(rng.choice(cand[-k:]) if rng.random() < 0.7 else rng.choice(cand))
    return Net(ins, outs, gates)


def gate_type_by_name():
    from cirbo.core.circuit import gate
    return {t: getattr(gate, t) for t in ['INPUT'] + ALL_GATE_TYPES}


def build(net: Net, *, rng=None, shuffle_storage=False, cls=None, exotic=True):
    """Build a real cirbo Circuit from a reference netlist through public calls
    (emplace_gate in definition order, set_outputs).  shuffle_storage: move a
    random subset of gates to the end of the gate map by renaming twice, giving a
    non-topological storage order without touching private state."""
    from cirbo.core.circuit import Circuit
    gt = gate_type_by_name()
    c = (cls or Circuit)()
    for lbl, (t, ops) in net.gates.items():
        c.emplace_gate(lbl, gt[t], tuple(ops))
    # inputs in net order (INPUT gates were inserted in that order already when net is canonical)
    if list(c.inputs) != list(net.inputs):
        c.set_inputs(list(net.inputs))
    c.set_outputs(list(net.outputs))
    if shuffle_storage and rng is not None and c.size:
        labels = list(net.gates)
        if shuffle_storage == 'reversed' or rng.random() < 0.3:
            # every user stored before its operands (what a netlist file written outputs-first gives): renaming in
            # reverse definition order moves each gate behind the gates that read it
            chosen = list(reversed(labels))
            STORAGE['reversed'] = STORAGE.get('reversed', 0) + 1
        else:
            chosen = rng.sample(labels, rng.randint(1, max(1, len(labels) // 2)))
        for lbl in chosen:
            tmp = '__tmp__' + lbl
            if c.has_gate(tmp):
                continue
            c.rename_gate(lbl, tmp)
            c.rename_gate(tmp, lbl)
        if list(c.inputs) != list(net.inputs):
            c.set_inputs(list(net.inputs))
    if exotic and rng is not None:
        # the same circuit as an object that went through deepcopy / pickle (as minimize_subcircuits or a
        # multiprocessing hand-over produce): gate-type objects are then equal to, but not identical with,
        # the module constants
        r = rng.random()
        if r < 0.12:
            import copy as _copy
            c = _copy.deepcopy(c)
            CLONES['deepcopy'] = CLONES.get('deepcopy', 0) + 1
        elif r < 0.2:
            import pickle as _pickle
            try:
                c = _pickle.loads(_pickle.dumps(c))
                CLONES['pickle'] = CLONES.get('pickle', 0) + 1
            except Exception:
                pass
    return c


CLONES = {}
STORAGE = {}


def twin(net: Net, rng: random.Random, *, dup_outputs=True) -> tuple:
    """Isomorphic twin: labels permuted/renamed, definition order re-shuffled
    (still topological), symmetric-gate operand order kept.  Returns (twin_net,
    mapping old->new)."""
    labels = list(net.gates)
    new_names = ['t%d_%s' % (i, rng.choice('abcxyz')) for i in range(len(labels))]
    rng.shuffle(new_names)
    mp = dict(zip(labels, new_names))
    # random topological order of non-input gates
    indeg = {l: len(set(ops)) for l, (t, ops) in net.gates.items()}
    users = {l: [] for l in net.gates}
    for l, (t, ops) in net.gates.items():
        for o in set(ops):
            users[o].append(l)
    ready = [l for l in labels if indeg[l] == 0 and l not in net.inputs]
    order = []
    # inputs first in interface order, but interleave is allowed: keep inputs first for the input list order
    for i in net.inputs:
        order.append(i)
        for u in users[i]:
            indeg[u] -= 1
            if indeg[u] == 0:
                ready.append(u)
    while ready:
        k = rng.randrange(len(ready))
        l = ready.pop(k)
        order.append(l)
        for u in users[l]:
            indeg[u] -= 1
            if indeg[u] == 0:
                ready.append(u)
    gates = {}
    for l in order:
        t, ops = net.gates[l]
        gates[mp[l]] = (t, tuple(mp[o] for o in ops))
    outs = [mp[o] for o in net.outputs]
    return Net([mp[i] for i in net.inputs], outs, gates), mp


def describe(net: Net) -> dict:
    """JSON-friendly rendering for evidence samples / replay files."""
    return {'inputs': list(net.inputs), 'outputs': list(net.outputs),
            'gates': [[l, t, list(ops)] for l, (t, ops) in net.gates.items() if t != 'INPUT']}


def from_description(d) -> Net:
    if 'deep' in d:   # compact form of a deep chain: regenerated from its seed
        return deep_net(random.Random(d['dseed']), d['deep'], n_in=d.get('n_in', 3), types=d.get('types'))
    gates = {i: ('INPUT', ()) for i in d['inputs']}
    for l, t, ops in d['gates']:
        gates[l] = (t, tuple(ops))
    return Net(list(d['inputs']), list(d['outputs']), gates)


# ---------------------------------------------------------------- slices (C02 / C19 / C04)

def random_slice(net: Net, rng: random.Random, max_roots=2, p_cut=0.35):
    """Choose a cut-bounded slice of `net`: roots (non-input gates), walk backwards;
    each encountered gate becomes a cut point (slice input) with probability p_cut
    or when it is a primary input.  Returns (slice_inputs, slice_gates, roots) with
    slice_gates in topological (definition) order, or None."""
    cand = [l for l, (t, ops) in net.gates.items() if t != 'INPUT']
    if not cand:
        return None
    roots = rng.sample(cand, min(len(cand), rng.randint(1, max_roots)))
    inputs, inner = [], set()
    st = list(roots)
    seen = set()
    while st:
        g = st.pop()
        if g in seen:
            continue
        seen.add(g)
        t, ops = net.gates[g]
        if g not in roots and (t == 'INPUT' or rng.random() < p_cut):
            if g not in inputs:
                inputs.append(g)
            continue
        if t == 'INPUT':
            if g not in inputs:
                inputs.append(g)
            continue
        inner.add(g)
        st.extend(ops)
    # a gate chosen as cut point may also have been expanded via another path: expanded wins
    inputs = [i for i in inputs if i not in inner]
    # roots that ended up being operands of inner gates stay roots (outputs) as well
    order = [l for l in net.gates if l in inner]
    return inputs, order, [r for r in roots]


def slice_net(net: Net, inputs, gates, outputs) -> Net:
    g = {i: ('INPUT', ()) for i in inputs}
    for l in gates:
        g[l] = net.gates[l]
    return Net(list(inputs), list(outputs), g)


def relabel(net: Net, mapping) -> Net:
    g = {}
    for l, (t, ops) in net.gates.items():
        g[mapping.get(l, l)] = (t, tuple(mapping.get(o, o) for o in ops))
    return Net([mapping.get(i, i) for i in net.inputs], [mapping.get(o, o) for o in net.outputs], g)


# ---------------------------------------------------------------- public-API edits (well-formedness preserving)

def deep_description(rng: random.Random, depths, n_in=None, types=None) -> dict:
    return {'deep': rng.choice(list(depths)), 'dseed': rng.getrandbits(32), 'n_in': n_in or rng.randint(2, 3), 'types': types}


DEEP_QUICK = [1200, 2500, 4000]
DEEP_THOROUGH = [900, 1000, 1100, 1500, 3000, 6000]


def random_edits(c, rng: random.Random, k=None, allow_into_bench=True, allow_interface=True):
    """Apply k random *valid* public mutations to circuit `c` in place, so that the
    circuit is one that was reached through a mutation history (empty users lists,
    moved storage order, converted gates, retyped inputs...).  Returns the list of
    edit descriptions.  Deterministic for a given (c, rng state)."""
    from cirbo.core.circuit import gate as G
    gt = gate_type_by_name()
    k = rng.randint(1, 5) if k is None else k
    done = []
    for step in range(k):
        labels = list(c.gates)
        if not labels:
            break
        kind = rng.choice(['add_remove', 'add_remove', 'remove_free', 'rename', 'rename_back', 'into_bench', 'outputs',
                           'add_keep', 'replace_input', 'refused', 'refused'])
        try:
            if kind in ('add_remove', 'add_keep'):
                t = rng.choice(['AND', 'OR', 'XOR', 'GT', 'LIFF', 'RNOT', 'NOT', 'NAND'])
                ops = (rng.choice(labels),) if t == 'NOT' else (rng.choice(labels), rng.choice(labels))
                lbl = 'ed%d_%d' % (step, rng.randrange(10 ** 6))
                if c.has_gate(lbl):
                    continue
                c.emplace_gate(lbl, gt[t], ops)
                if kind == 'add_remove':
                    c.remove_gate(lbl)
                done.append([kind, lbl, t, list(ops)])
            elif kind == 'remove_free':
                free = [l for l in labels if not c.get_gate_users(l) and l not in c.outputs
                        and c.get_gate(l).gate_type != G.INPUT]
                if free:
                    l = rng.choice(free)
                    c.remove_gate(l)
                    done.append([kind, l])
            elif kind in ('rename', 'rename_back'):
                l = rng.choice(labels)
                new = 'rn%d_%s' % (step, l)
                if c.has_gate(new):
                    continue
                c.rename_gate(l, new)
                if kind == 'rename_back':
                    c.rename_gate(new, l)
                done.append([kind, l, new])
            elif kind == 'into_bench' and allow_into_bench and c.inputs:
                c.into_bench()
                done.append([kind])
            elif kind == 'outputs' and allow_interface:
                outs = list(c.outputs)
                if rng.random() < 0.5:
                    outs.append(rng.choice(labels))
                rng.shuffle(outs)
                c.set_outputs(outs)
                done.append([kind, outs])
            elif kind == 'refused':
                # a request the library must refuse; the caller catches the error and keeps using the object
                sub = rng.choice(['replace_inputs_mixed', 'rename_to_existing', 'remove_used', 'emplace_existing',
                                  'emplace_missing_operand', 'set_inputs_duplicate', 'set_outputs_unknown', 'rename_missing'])
                non_in = [l for l in labels if c.get_gate(l).gate_type != G.INPUT]
                ins = list(c.inputs)
                try:
                    if sub == 'replace_inputs_mixed' and allow_interface and len(ins) > 1 and non_in:
                        i = rng.choice(ins)
                        bad = rng.choice(non_in + ['__no_such_gate__'])
                        if rng.random() < 0.5:
                            c.replace_inputs([i], [bad])
                        else:
                            c.replace_inputs([bad], [i])
                    elif sub == 'rename_to_existing' and len(labels) > 1:
                        a, b = rng.sample(labels, 2)
                        c.rename_gate(a, b)
                    elif sub == 'remove_used':
                        used = [l for l in labels if c.get_gate_users(l)]
                        if used:
                            c.remove_gate(rng.choice(used))
                    elif sub == 'emplace_existing':
                        c.emplace_gate(rng.choice(labels), G.AND, (rng.choice(labels), rng.choice(labels)))
                    elif sub == 'emplace_missing_operand':
                        c.emplace_gate('edx%d' % step, G.AND, (rng.choice(labels), '__no_such_gate__'))
                    elif sub == 'set_inputs_duplicate' and ins:
                        c.set_inputs(ins + [ins[0]])
                    elif sub == 'set_outputs_unknown':
                        c.set_outputs(list(c.outputs) + ['__no_such_gate__'])
                    elif sub == 'rename_missing':
                        c.rename_gate('__no_such_gate__', 'edy%d' % step)
                    done.append([kind, sub, 'accepted'])
                except Exception as e:
                    done.append([kind, sub, 'refused:' + type(e).__name__])
            elif kind == 'replace_input' and allow_interface and len(c.inputs) > 1:
                i = rng.choice(list(c.inputs))
                if rng.random() < 0.5:
                    c.replace_inputs([i], [])
                else:
                    c.replace_inputs([], [i])
                done.append([kind, i])
        except Exception as e:  # an edit that the library refuses is simply not part of the history
            done.append([kind, 'refused:' + type(e).__name__])
    return done


def scribble(c, rng: random.Random):
    """What an owner does with an object the library handed over: edit it in place through the
    public API (rename its inputs, add inputs and gates, change outputs).  Later library calls must
    not be affected, and other objects (arguments, earlier results) must not change."""
    from cirbo.core.circuit import gate as G
    try:
        for i, l in enumerate(list(c.inputs)):
            if rng.random() < 0.7 and not c.has_gate('own_%d_%s' % (i, l)):
                c.rename_gate(l, 'own_%d_%s' % (i, l))
        k = rng.randrange(10 ** 6)
        if not c.has_gate('own_in_%d' % k):
            c.add_inputs(['own_in_%d' % k])
        labels = list(c.gates)
        if labels and not c.has_gate('own_g_%d' % k):
            c.emplace_gate('own_g_%d' % k, G.NOT, (rng.choice(labels),))
            outs = list(c.outputs)
            rng.shuffle(outs)
            c.set_outputs(outs[: max(0, len(outs) - 1)] + ['own_g_%d' % k])
        if c.inputs:
            c.set_inputs(list(reversed(c.inputs)))
    except Exception:
        pass


def deep_net(rng: random.Random, depth: int, n_in: int = 3, types=None, unary=('NOT', 'IFF'), side_p=0.1) -> Net:
    """A netlist whose longest dependency chain has `depth` gates (long ripple / iterated constructions): each link
    combines the previous link with an input or an earlier link.  Few inputs, so the reference truth table stays tiny
    whatever the depth.  Code that recurses once per logic level fails on these under the default recursion limit."""
    types = types or ['AND', 'OR', 'XOR', 'NAND', 'NOR', 'NXOR', 'GT', 'LT', 'GEQ', 'LEQ', 'NOT', 'IFF', 'LNOT', 'RIFF']
    ins = ['x%d' % i for i in range(n_in)]
    g = {i: ('INPUT', ()) for i in ins}
    prev = ins[0]
    links = []
    for k in range(depth):
        t = rng.choice(types)
        l = 'd%d' % k
        if t in unary:
            g[l] = (t, (prev,))
        else:
            other = rng.choice(ins) if (not links or rng.random() > side_p) else rng.choice(links[-50:])
            g[l] = (t, (prev, other) if rng.random() < 0.5 else (other, prev))
        links.append(l)
        prev = l
    outs = [prev]
    if depth > 2 and rng.random() < 0.5:
        outs.append(links[depth // 2])
    return Net(ins, outs, g)


def mark_up(c, rng, n_blocks=None):
    """Give a circuit block markup the way a user (or a generator) does: one to three named blocks over random gate
    subsets, outputs a subset of the members, inputs left to the library or given explicitly.  Returns the block names.
    Blocks are part of a circuit's state: whoever promises not to modify a circuit promises it for the block table too."""
    labels = [l for l, g in c.gates.items() if g.gate_type.name != 'INPUT']
    names = []
    if not labels:
        return names
    for k in range(n_blocks or rng.randint(1, 3)):
        gs = rng.sample(labels, rng.randint(1, min(len(labels), 5)))
        outs = rng.sample(gs, rng.randint(1, len(gs)))
        nm = 'blk%d' % k
        try:
            if rng.random() < 0.3:
                ins = sorted({o for g in gs for o in c.get_gate(g).operands if o not in gs})
                c.make_block(nm, gs, outs, ins)
            else:
                c.make_block(nm, gs, outs)
            names.append(nm)
        except Exception:
            pass
    return names
