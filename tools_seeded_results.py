#!/usr/bin/env python3
"""Build seeded/RESULTS.md from the metas and a sweep log (tools_seeded.py sweep > log)."""
import json, os, re, sys
HERE = os.path.dirname(os.path.abspath(__file__))
log = open(sys.argv[1]).read() if len(sys.argv) > 1 else ''
verdict = {}
for line in log.split('\n'):
    m = re.match(r'^(C\d\d-\w+) (C\d\d) (DETECTED|MISSED|INCONCLUSIVE) (.*)$', line)
    if m:
        verdict[m.group(1)] = (m.group(3), m.group(4))
notes = json.load(open(os.path.join(HERE, 'seeded', 'notes.json'))) if os.path.exists(os.path.join(HERE, 'seeded', 'notes.json')) else {}
rows = ['# Seeded changes and which checks catch them', '',
        'Each change was produced by an independent sub-agent that saw only the property text and a scratch worktree.',
        'Every one was re-confirmed here (`tools_seeded.py verify`: patch applies to the unchanged tree, the 2129-test suite',
        'summary is unchanged, the demonstration fails with the change and passes without) and then run through the official',
        'flow `git -C /repo apply patch.diff; ./check <property> --tier quick (seeds 0,1,2 until the first alarm); git -C /repo checkout -- .`',
        '(`tools_seeded.py sweep`).  "strengthened" = the change was missed by the check as it stood when the change arrived;',
        'the note says what was added to the workload / oracle (never a loosening) before it was caught.', '',
        '| id | property | change | needs | verdict (seed, exit code) | note |', '|---|---|---|---|---|---|']
for name in sorted(os.listdir(os.path.join(HERE, 'seeded'))):
    d = os.path.join(HERE, 'seeded', name)
    if not os.path.exists(os.path.join(d, 'patch.diff')):
        continue
    meta = json.load(open(os.path.join(d, 'meta.json')))
    v = verdict.get(name, ('not swept', ''))
    meta['vt'] = {'confirmed': True, 'ran': 'git -C /repo apply patch.diff; ./check %s --tier quick (VERIF_SEED 0..2); git -C /repo checkout -- .' % meta['property'],
                  'verdict': v[0], 'runs': v[1], 'note': notes.get(name, '')}
    json.dump(meta, open(os.path.join(d, 'meta.json'), 'w'), indent=1)
    cell = lambda x: str(x).replace('|', '/').replace('\n', ' ')[:220]
    rows.append('| %s | %s | %s | %s | %s %s | %s |' % (name, meta['property'], cell(meta.get('summary', '')), cell(meta.get('needs', '')), v[0], v[1], cell(notes.get(name, ''))))
open(os.path.join(HERE, 'seeded', 'RESULTS.md'), 'w').write('\n'.join(rows) + '\n')
print('\n'.join(rows[-45:]))
