#!/usr/bin/env python3
"""Seeded-change bookkeeping.

  tools_seeded.py verify  <dir>            confirm a candidate (patch.diff + demo.py): applies, suite passes, demo fails/passes
  tools_seeded.py detect  <dir> [ids...]   run checks against a scratch worktree carrying the patch (VT_REPO), record outcome
  tools_seeded.py sweep   [ids...]         apply each kept seeded change to /repo, run its property's quick check, undo (official flow)

Scratch worktrees live under $TMPDIR (default /tmp) and are removed afterwards."""
import json
import os
import shutil
import subprocess
import sys
import tempfile

HERE = os.path.dirname(os.path.abspath(__file__))
PY = '/venv/bin/python'
SUITE = [PY, '-m', 'pytest', '-q', '-p', 'no:cacheprovider', '--timeout=900', '--continue-on-collection-errors']


def sh(cmd, cwd=None, env=None, timeout=3600):
    r = subprocess.run(cmd, cwd=cwd, env=env, capture_output=True, text=True, timeout=timeout)
    return r.returncode, (r.stdout or '') + (r.stderr or '')


def scratch(patch=None):
    d = tempfile.mkdtemp(prefix='vt_seed_', dir=os.environ.get('TMPDIR', '/tmp'))
    os.rmdir(d)
    rc, out = sh(['git', '-C', '/repo', 'worktree', 'add', '-q', '--detach', d, 'HEAD'])
    assert rc == 0, out
    if patch:
        rc, out = sh(['git', '-C', d, 'apply', patch])
        if rc != 0:
            drop(d)
            raise SystemExit('patch does not apply: ' + out)
    return d


def drop(d):
    sh(['git', '-C', '/repo', 'worktree', 'remove', '--force', d])
    shutil.rmtree(d, ignore_errors=True)


def demo(tree, demo_py):
    env = dict(os.environ, PYTHONPATH=os.pathsep.join([tree, '/tmp/cirbo_shims', '/tmp/cirbo_shims/deps']),
               PYTHONDONTWRITEBYTECODE='1')
    env.pop('VT_REPO', None)
    return sh([PY, demo_py], cwd=tree, env=env, timeout=1200)


def verify(d):
    d = os.path.abspath(d)
    patch, demo_py = os.path.join(d, 'patch.diff'), os.path.join(d, 'demo.py')
    res = {}
    clean = scratch()
    try:
        rc, out = demo(clean, demo_py)
        res['demo_clean_rc'] = rc
        res['demo_clean_tail'] = out[-400:]
    finally:
        drop(clean)
    mut = scratch(patch)
    try:
        rc, out = demo(mut, demo_py)
        res['demo_mutant_rc'] = rc
        res['demo_mutant_tail'] = out[-600:]
        rc, out = sh(SUITE, cwd=mut, env=dict(os.environ, PYTHONDONTWRITEBYTECODE='1'))
        res['suite_summary'] = out.strip().split('\n')[-1]
    finally:
        drop(mut)
    res['confirmed'] = (res['demo_clean_rc'] == 0 and res['demo_mutant_rc'] != 0 and '2129 passed' in res['suite_summary']
                        and 'failed' not in res['suite_summary'])
    print(json.dumps(res, indent=1))
    return res


def run_checks(tree, ids, seeds=(0,), tier='quick'):
    out = {}
    for pid in ids:
        for s in seeds:
            env = dict(os.environ, VT_REPO=tree, VERIF_SEED=str(s))
            rc, o = sh([os.path.join(HERE, 'check'), pid, '--tier', tier, '--no-evidence'], cwd=HERE, env=env, timeout=7200)
            lines = [l for l in o.split('\n') if l.startswith('VIOLATION') or l.startswith('INCONCLUSIVE') or 'violation:' in l]
            out.setdefault(pid, []).append({'seed': s, 'rc': rc, 'lines': [l[:400] for l in lines[:6]]})
            if rc == 1:
                break
    return out


def detect(d, ids=None, seeds=(0, 1, 2), tier='quick'):
    d = os.path.abspath(d)
    meta = json.load(open(os.path.join(d, 'meta.json')))
    ids = ids or [meta['property']]
    mut = scratch(os.path.join(d, 'patch.diff'))
    try:
        res = run_checks(mut, ids, seeds, tier)
    finally:
        drop(mut)
    for pid, runs in res.items():
        verdict = 'DETECTED' if any(r['rc'] == 1 for r in runs) else ('INCONCLUSIVE' if any(r['rc'] == 2 for r in runs) else 'MISSED')
        print(pid, verdict, [(r['seed'], r['rc']) for r in runs])
        for r in runs:
            for l in r['lines'][:3]:
                print('    ', l[:300])
    return res


def sweep(ids=None):
    """Official flow: git -C /repo apply; run; git -C /repo checkout -- ."""
    base = os.path.join(HERE, 'seeded')
    rows = []
    for name in sorted(os.listdir(base)):
        d = os.path.join(base, name)
        if not os.path.exists(os.path.join(d, 'patch.diff')):
            continue
        meta = json.load(open(os.path.join(d, 'meta.json')))
        pid = meta['property']
        if ids and pid not in ids and name not in ids:
            continue
        rc, out = sh(['git', '-C', '/repo', 'status', '--porcelain'])
        assert out.strip() == '', '/repo is not clean'
        rc, out = sh(['git', '-C', '/repo', 'apply', os.path.join(d, 'patch.diff')])
        try:
            assert rc == 0, out
            res = run_checks('/repo', [pid], seeds=(0, 1, 2))
        finally:
            sh(['git', '-C', '/repo', 'checkout', '--', '.'])
        runs = res[pid]
        verdict = 'DETECTED' if any(r['rc'] == 1 for r in runs) else ('INCONCLUSIVE' if any(r['rc'] == 2 for r in runs) else 'MISSED')
        rows.append((name, pid, verdict, [(r['seed'], r['rc']) for r in runs]))
        print(name, pid, verdict, rows[-1][3], flush=True)
    return rows


def record(names=None):
    """verify + official sweep for each kept seeded change; persist into meta.json and seeded/RESULTS.md"""
    base = os.path.join(HERE, 'seeded')
    lines = ['# Seeded changes and which checks catch them', '',
             'Each change was produced by an independent sub-agent from the property text alone, re-confirmed here',
             '(`tools_seeded.py verify`: applies, 2129-test suite unchanged, demo fails with / passes without) and run',
             'through the official flow (`git -C /repo apply`, quick check of its property over seeds 0..2, `git -C /repo checkout -- .`).', '',
             '| id | property | what it needs to manifest | confirmed | quick check verdict | first signature |', '|---|---|---|---|---|---|']
    for name in sorted(os.listdir(base)):
        d = os.path.join(base, name)
        if not os.path.exists(os.path.join(d, 'patch.diff')):
            continue
        if names and name not in names:
            meta = json.load(open(os.path.join(d, 'meta.json')))
        else:
            meta = json.load(open(os.path.join(d, 'meta.json')))
            v = verify(d)
            rows = sweep([name])
            pid = meta['property']
            env_note = 'git -C /repo apply patch.diff; ./check %s --tier quick (seeds 0..2); git -C /repo checkout -- .' % pid
            meta['vt'] = {'confirmed': v['confirmed'], 'suite_summary': v['suite_summary'], 'demo_clean_rc': v['demo_clean_rc'],
                          'demo_mutant_rc': v['demo_mutant_rc'], 'ran': env_note, 'verdict': rows[0][2] if rows else 'n/a',
                          'runs': rows[0][3] if rows else []}
            # first signature
            rc, out = 0, ''
            json.dump(meta, open(os.path.join(d, 'meta.json'), 'w'), indent=1)
        vt = meta.get('vt', {})
        lines.append('| %s | %s | %s | %s | %s | %s |' % (name, meta['property'], str(meta.get('needs', ''))[:160].replace('|', '/').replace('\n', ' '),
                                                     vt.get('confirmed'), vt.get('verdict'), str(vt.get('signature', ''))[:120]))
    open(os.path.join(base, 'RESULTS.md'), 'w').write('\n'.join(lines) + '\n')
    print('\n'.join(lines))


if __name__ == '__main__':
    cmd = sys.argv[1]
    if cmd == 'record':
        record(sys.argv[2:] or None)
        sys.exit(0)
    if cmd == 'verify':
        verify(sys.argv[2])
    elif cmd == 'detect':
        detect(sys.argv[2], sys.argv[3:] or None)
    elif cmd == 'sweep':
        sweep(sys.argv[2:] or None)
