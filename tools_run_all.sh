#!/bin/sh
# usage: tools_run_all.sh <tier> [ids...]   runs checks sequentially, prints one summary line each
TIER=${1:-quick}; shift
IDS=${@:-$(python3 -c "import json;print(' '.join(c['property_id'] for c in json.load(open('MANIFEST.json'))['checks']))")}
for p in $IDS; do
  ./check $p --tier $TIER > /tmp/vt_run_$p.log 2>&1; rc=$?
  echo "== $p rc=$rc $(grep -E "^$p tier" /tmp/vt_run_$p.log)"
  grep -E "VIOLATION|INCONCLUSIVE|violation:|KNOWN-FINDING" /tmp/vt_run_$p.log | cut -c1-600
done
